"""C02 — a clean `e2fsck -fn` verdict implies a consistent filesystem, as judged by the independent reader e4ref (Hypothesis, structure-aware corruption)."""
import os, json
from hypothesis import strategies as st
from vlib import hyp, corrupt, fsgen, core, e4ref
LEVEL = 'exploration'
RULE = ('Hypothesis draws (configuration, population recipe, and either 1-4 structure-aware mutations with or without checksum fix-up or ONE violation-directed mutation: a pointer/count field of one object set to a boundary value - first invalid block number, one past it, all ones, +-1, another file\'s block, fixed metadata - with checksums fixed up); the independent checker e4ref (no libext2fs code) judges the corrupted bytes '
        'against the invariants the property lists (range/ownership of blocks, bitmaps and per-group counts, link counts and reachability, extent/dirent/htree well-formedness, every checksum); '
        'violation = e4ref proves an invariant broken and `e2fsck -fn` exits 0; non-trivial = e4ref confirmed at least one broken invariant; distinct by (invariant kinds, damaged areas, configuration)')
CFG_NAMES = [c['name'] for c in fsgen.CONFIGS]

# violation-directed single mutations: one pointer / count field of one object set to a boundary value (first invalid block number, one past it, all ones, +-1, another owner's block,
# fixed metadata) with the checksum fixed up, so that exactly one listed invariant breaks and nothing else masks it
_PTR_CLASSES = [corrupt.CLASSES.index(c) for c in ('inode', 'inode', 'special', 'extent', 'ind', 'gd', 'xattr', 'dirent', 'dx')]
_DIR_KINDS = [corrupt.KINDS.index(k) for k in ('out_of_range', 'out_of_range', 'inc', 'dec', 'other_block', 'meta_block', 'zero', 'ones')]
_VALS = st.sampled_from([5, 15, 11, 1, 21, 3, 13, 7, 9, 25])
def _ptr_idx(fields): return [i for i, f in enumerate(fields) if f[0] in corrupt.POINTER_FIELDS or f[0] in ('size', 'links', 'blocks', 'flags', 'free_blocks', 'free_inodes', 'used_dirs', 'itable_unused')]
# for inodes and group descriptors (many fields) the field is drawn among the block-number / count fields only
directed = st.one_of(
    st.tuples(st.just(corrupt.CLASSES.index('inode')), st.integers(0, 500), st.sampled_from(_ptr_idx(corrupt.INO_FIELDS)), st.sampled_from(_DIR_KINDS), _VALS, st.just(True)),
    st.tuples(st.just(corrupt.CLASSES.index('gd')), st.integers(0, 500), st.sampled_from(_ptr_idx(corrupt.GD_FIELDS)), st.sampled_from(_DIR_KINDS), _VALS, st.just(True)),
    st.tuples(st.sampled_from(_PTR_CLASSES), st.integers(0, 500), st.integers(0, 200), st.sampled_from(_DIR_KINDS), _VALS, st.just(True)),
    # unreachable-but-locally-consistent structures: a directory cut off from its parent, alone or in a loop with one of its subdirectories
    # exactly one stale checksum, nothing else wrong: a benign field (times, owner, generation-free fields) or the checksum field itself of one inode / descriptor is flipped without fix-up
    st.tuples(st.just(corrupt.CLASSES.index('inode')), st.integers(0, 500), st.sampled_from([i for i, f in enumerate(corrupt.INO_FIELDS) if f[0] in ('atime', 'ctime', 'mtime', 'uid', 'gid', 'csum_lo', 'csum_hi')]),
              st.just(corrupt.KINDS.index('bitflip')), st.integers(0, 31), st.just(False)),
    # an inode without a block map (fast symlink, device, fifo, socket, inline-data file) made invalid: mode / size / flags / blocks / xattr pointer
    st.tuples(st.just(corrupt.CLASSES.index('blockless')), st.integers(0, 500), st.sampled_from([i for i, f in enumerate(corrupt.INO_FIELDS) if f[0] in ('mode', 'size', 'flags', 'blocks', 'file_acl', 'links', 'iblock0', 'size_high')]),
              st.sampled_from(_DIR_KINDS + [corrupt.KINDS.index('bitflip'), corrupt.KINDS.index('random')]), st.integers(0, 1 << 16), st.just(True)),
    # extent node headers: eh_entries / eh_max one up or one down (a node claiming more entries than it declares room for, or more room than the container has)
    st.tuples(st.just(corrupt.CLASSES.index('extent')), st.integers(0, 500), st.just(0), st.sampled_from([corrupt.KINDS.index('dec'), corrupt.KINDS.index('inc')]), st.sampled_from([6, 18, 30, 9, 21, 33, 42, 45]), st.just(True)),
    # a directory that loses its first (often only) block
    st.tuples(st.just(corrupt.CLASSES.index('dirmap')), st.integers(0, 500), st.integers(0, 6), st.sampled_from(_DIR_KINDS), _VALS, st.just(True)),
    st.tuples(st.just(corrupt.CLASSES.index('eadup')), st.integers(0, 500), st.integers(0, 1), st.just(0), st.integers(0, 500), st.just(True)),
    st.tuples(st.just(corrupt.CLASSES.index('dirloop')), st.integers(0, 500), st.integers(0, 2), st.just(0), st.integers(0, 50), st.just(True)))

def strategy(env):
    return st.fixed_dictionaries(dict(cfg=st.sampled_from(CFG_NAMES), recipe=st.integers(0, len(hyp.RECIPES) - 1),
                                      muts=st.one_of(st.lists(hyp.mutation, min_size=1, max_size=4), st.lists(directed, min_size=1, max_size=1), st.lists(directed, min_size=1, max_size=1))))

def envinit(widx):
    env = hyp.img_env(widx, variants=('asan',)); env['base_ok'] = {}
    return env

def ref_check(img):
    """-> (status, kinds, findings)  status in ok|broken|unsupported|error"""
    try:
        f = e4ref.Checker(img).run()
    except e4ref.Unsupported as e:
        return 'unsupported', [], [str(e)]
    except Exception as e:   # the reader met bytes it cannot interpret: no verdict
        return 'error', [], [repr(e)[:200]]
    kinds = sorted(set(x.inv for x in f))
    return ('broken' if f else 'ok'), kinds, [repr(x) for x in f[:6]]

def body(case, env):
    classes = ['cfg:' + case['cfg']]; fp = core.stable_hash(case)
    tpl = hyp.template(env, case['cfg'], case['recipe'])
    if tpl is None: return (None, fp, False, None, classes + ['skip:template-build-failed'])
    key = (case['cfg'], case['recipe'])
    if key not in env['base_ok']:
        env['base_ok'][key] = ref_check(tpl)[0] == 'ok' and env['asan'].fsck(tpl, '-fn').rc == 0
    if not env['base_ok'][key]: return (None, fp, False, None, classes + ['skip:base-not-clean-for-both'])
    img = hyp.fresh_copy(env, tpl)
    try: desc = corrupt.apply(img, [tuple(m) for m in case['muts']])
    except Exception: return (None, fp, False, None, classes + ['skip:corruptor-error'])
    if not desc: return (None, fp, False, None, classes + ['skip:nothing-applied'])
    status, kinds, findings = ref_check(img)
    classes.append('ref:' + status)
    if status != 'broken': return (None, fp, False, None, classes)
    for k in kinds: classes.append('invariant:' + k)
    p, probs = hyp.fsck_logged(env['asan'], img, '-fn', env)
    if p.rc is None or p.rc >= 8:
        classes.append('fsck:rc=%s' % p.rc); return (None, fp, True, None, classes)
    areas = corrupt.areas(desc)
    if p.rc == 0:
        # PR_5_FREE_INODE_COUNT / PR_5_FREE_BLOCK_COUNT concern the superblock totals, which are a cache the kernel recomputes (not an invariant of the property; PR_NO_OK by design)
        codes = sorted(set(c for c, a in probs) - {'0x05000d', '0x05000f'})
        obs = dict(kind='A:printed-but-exit-0' if codes else 'B:silent', cfg=case['cfg'], invariants=kinds, areas=areas, codes=codes, ref_findings=findings, applied=desc,
                   fsck_says=[l for l in p.out.splitlines() if l and not l.startswith(('Pass ', 'e2fsck '))][:5])
        return (obs, fp, True, None, classes)
    classes.append('agree:both-reject')
    return (None, fp, True, dict(cfg=case['cfg'], applied=desc, invariants=kinds, fsck_rc=p.rc), classes)

def run(ctx):
    ctx.rule = RULE
    ctx.assumptions = ['e4ref is deliberately incomplete: only "e2fsck accepts, e4ref proves an invariant broken" is judged; the opposite disagreement is counted only',
                       'images on which e4ref raises (bytes it cannot interpret) or that use unsupported features give no verdict']
    replay_tier(ctx)
    n = int((450 if ctx.tier == 'quick' else 4000) * ctx.scale)
    hyp.run_property(ctx, strategy, body, envinit, n)

def replay_tier(ctx):
    import glob
    env = None
    for p in sorted(glob.glob(os.path.join(core.VERIF, 'replays', ctx.prop, '*.json'))):
        j = json.load(open(p)); env = env or envinit(99)
        obs = body(j['case'], env)[0]
        ctx.res.count('replay:' + ('fail' if obs else 'pass'))
        if obs: obs['replay_of'] = os.path.basename(p); ctx.res.violations.append(dict(obs=obs, case=j['case']))

def replay_file(ctx, path):
    j = json.load(open(path)); obs = body(j['case'], envinit(99))[0]
    if obs:
        e = ctx.classify(obs)
        if e: print('KNOWN-FINDING: property=%s %s [%s]' % (ctx.prop, e['what'], e['id'])); return 0
        print(json.dumps(obs, indent=1)); print('VIOLATION property=%s replay=%s' % (ctx.prop, path)); return 1
    print('replay passes: %s' % path); return 0

MANIFEST = dict(
    engine='hypothesis',
    technique='differential property-based testing: e2fsck -fn exit status vs an independent ext4 consistency checker (e4ref) on Hypothesis-generated corruptions',
    level_text='Generated-input exploration with an oracle that shares no code with e2fsprogs: each corrupted image is judged by e4ref against the invariants the property lists, and e2fsck -fn must not exit 0 when one is broken.',
    level_note='Trusted: vlib/e4ref.py (written from the format documentation; calibrated to report clean on every generated valid image of all %d configurations) and native/crcref.c. Only the direction "e2fsck clean but invariant broken" is judged.' % len(fsgen.CONFIGS))
