"""C16 — every bitmap implementation behaves as a set of integers (rapidcheck, in-process, ASan+UBSan)."""
from vlib import rc, rcheck
LEVEL = 'exploration'
RULE = ('rapidcheck generates (bitmap kind, cluster bits, start, size, padding) and 1-60 ops over mark/unmark/test, range mark/unmark/test, '
        'get/set range (byte-aligned like every caller), find_first_zero/set, copy, compare, clear, resize, set_padding, out-of-range; '
        'bitarray, rbtree and legacy 32-bit backends run in lockstep against one std::set; non-trivial = the sequence has a query after >= 3 '
        'structural changes; distinct by FNV hash of the serialised case')

def exes():
    return {'c16_bitmap': rc.compile_harness('c16_bitmap')}

def run(ctx):
    ex = exes()
    ctx.rule = RULE
    ctx.assumptions = ['callers keep (real_end-start+1) a multiple of 8 and pass byte-aligned relative starts to get/set range (true of every in-tree caller)',
                       'padding bits (end, real_end] are outside the set and never compared']
    rcheck.replay_tier(ctx, ex)
    n = int((20000 if ctx.tier == "quick" else 600000) * ctx.scale)
    res = rc.run_harness(ex['c16_bitmap'], ctx.seed, 16, n, 200, known_tags=rcheck.known_tags(ctx))
    ctx.res.merge(res)

def replay_file(ctx, path):
    return rcheck.replay_file(ctx, exes(), path)

MANIFEST = dict(
    engine='rapidcheck',
    technique='model-based property testing (rapidcheck op sequences vs std::set reference, three backends in lockstep, ASan+UBSan)',
    level_text='Generated-sequence exploration: 3.2e5 (quick) to 9.6e6 (thorough) random op sequences per run are executed on all three backends and compared, return value by return value, with a reference set; it shows absence of divergence only on the sequences explored, which is the appropriate level for a pure data-structure contract with an exact executable model.',
    level_note='Trusted: the std::set model in harness/c16_bitmap.cc, rapidcheck, clang sanitizers. Assumes the callers\' alignment convention for get/set range (whole bytes, byte-aligned relative start) and real_end-start+1 multiple of 8.')
