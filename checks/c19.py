"""C19 — e2image images preserve all metadata, convert losslessly, preserve file data with -a, and never touch the source (Hypothesis over filesystems x modes)."""
import os, json, shutil, re, random
from hypothesis import strategies as st
from vlib import hyp, fsgen, core, tool, run as vrun, e4ref
LEVEL = 'exploration'
MODES = ['-r', '-Q', '-Q->-r', '-ra', '-ra-offsets', '-Qa', 'normal']
EXTRA_CONFIGS = [
    dict(name='ext4-4k-16m', fstype='ext4', bs=4096, blocks=6144, features=[], extra=['-g', '2048']),          # crosses the 2 MiB qcow2 L2 span several times
    dict(name='ext4-2k-12m', fstype='ext4', bs=2048, blocks=6144, features=['^flex_bg'], extra=['-g', '1024']),
    # larger than the 512 L2 tables the qcow2 writer caches (1 KiB blocks: one table per 128 KiB), mostly filled by one file: -Qa has to flush and recycle tables
    dict(name='ext4-1k-96m-bigfile', fstype='ext4', bs=1024, blocks=98304, features=[], extra=[], bigfile=68 << 20),
    dict(name='ext2-1k-80m-bigfile', fstype='ext2', bs=1024, blocks=81920, features=[], extra=[], bigfile=56 << 20),
    # larger than 4 GiB, with inode tables, bitmaps and directory blocks in the part above 4 GiB (sparse: a few MiB are really allocated); used read-only, without a private copy
    dict(name='ext4-4k-5g', fstype='ext4', bs=4096, blocks=1315840, features=[], extra=['-N', '2048'], fillfiles=1750, big=True),
    dict(name='ext4-1k-mmp', fstype='ext4', bs=1024, blocks=8193, features=['mmp'], extra=['-E', 'mmp_update_interval=1']),
]
ALLCFG = fsgen.CONFIGS + EXTRA_CONFIGS
CFG_NAMES = [c['name'] for c in ALLCFG if c['name'] != 'ext4-1k-mmp'] + (['ext4-1k-mmp'] if os.environ.get('VERIF_TIER') == 'thorough' else [])    # every tool run on an MMP filesystem sleeps for seconds: thorough tier only
RULE = ('Hypothesis draws (configuration out of %d incl. two 80-96 MiB filesystems whose all-data qcow2 image needs more L2 tables than the writer caches, population recipe, 0-3 extra population ops incl. deep extent trees, big directories, xattr blocks, sparse files; mode out of %s). '
        '-r: every metadata block enumerated by the independent reader (superblock/descriptor copies, bitmaps, inode tables, extent/indirect blocks, directory blocks, xattr blocks, slow symlinks, journal/quota/orphan/resize inode data, MMP) is byte-identical in the image, '
        'and dumpe2fs / e2fsck -fn print the same on image and source; -Q then -r equals the direct raw image byte for byte; -ra / -Qa: the tree digest (all file bytes) is equal and blocks that differ from the source are owned by no file and no primary metadata; '
        'every block of a raw (or qcow2-converted) image equals the source block or is zero; -ra with -o/-O offsets: the copy at the destination offset checks clean and has the same digest; in every mode the source keeps its sha256 and the syscall trace shows no write to it. '
        'non-trivial = the filesystem has an extent index block, an indirect block or an htree directory, and an xattr block or slow symlink; distinct by case') % (len(ALLCFG), MODES)

def cfg_by_name(n):
    for c in ALLCFG:
        if c['name'] == n: return c
    raise KeyError(n)

def strategy(env):
    # the 5 GiB configuration costs ~30 s per case (hashing and comparing 5 GiB three times): drawn four times less often than the others
    names = [c for c in CFG_NAMES if c != 'ext4-4k-5g'] * 4 + [c for c in CFG_NAMES if c == 'ext4-4k-5g']
    return st.fixed_dictionaries(dict(cfg=st.sampled_from(names), recipe=st.integers(0, len(hyp.RECIPES) - 1), extras=st.lists(st.tuples(st.integers(0, fsgen.NKINDS - 1), st.integers(0, 2000), st.integers(0, 6000)), max_size=3),
                                      mode=st.integers(0, len(MODES) - 1), off=st.sampled_from([0, 512, 4096, 1048576, 12345 * 512])))

def envinit(widx):
    return hyp.img_env(widx, variants=('asan',))

def template(env, name, recipe):
    key = (name, recipe)
    if key in env['cache']: return env['cache'][key]
    cfg = cfg_by_name(name); img = os.path.join(env['dir'], 'tpl-%s-%d.img' % key)
    ok, log = fsgen.build_image(env['plain'], img, cfg, hyp.RECIPES[recipe], env['blobs'], random.Random(recipe * 31 + 7))
    if ok and cfg.get('fillfiles'):
        # inodes are handed out first-fit from group 0: enough files to reach the groups beyond 4 GiB
        env['plain'].dbg(img, ['mkdir hi'] + ['mkdir hi/d%04d' % k if k % 6 == 0 else 'write /dev/null hi/f%04d' % k for k in range(cfg['fillfiles'])], write=True, cpu=300)
    if ok and cfg.get('bigfile'):
        env['plain'].dbg(img, ['write %s hugefile' % fsgen._blob(env['blobs'], 'c19big-%d' % cfg['bigfile'], cfg['bigfile'], 19)], write=True, cpu=300)
    env['cache'][key] = img if ok else None
    return env['cache'][key]

def norm(out, *paths):
    for p in paths: out = out.replace(p, '<IMG>')
    return [l for l in out.splitlines() if not l.startswith(('dumpe2fs ', 'e2fsck ')) and 'Filesystem volume name' not in l.lower() or True]

def body(case, env):
    fp = core.stable_hash(case); mode = MODES[case['mode']]; classes = ['mode:' + mode, 'cfg:' + case['cfg']]
    cfg = cfg_by_name(case['cfg']); bs = cfg['bs']; d = env['dir']; tp = env['plain']; t = env['asan']
    tpl = template(env, case['cfg'], case['recipe'])
    if tpl is None: return (None, fp, False, None, classes + ['skip:template-build-failed'])
    if cfg.get('big'):
        # no private copy (it would have to be a sparse copy) and no extra population: the template itself is the read-only source; only the raw / qcow2 metadata modes
        src = os.path.join(d, 'c19src.img')
        if os.path.lexists(src): os.unlink(src)
        os.link(tpl, src); mode = ['-r', '-Q', '-Q->-r'][case['mode'] % 3]; classes[0] = 'mode:' + mode; case = dict(case, extras=[])
    else:
        stale = os.path.join(d, 'c19src.img')
        if os.path.lexists(stale): os.unlink(stale)      # it may be a hard link to the big template: never write through it
        src = hyp.fresh_copy(env, tpl, 'c19src.img')
    if case['extras']:
        fsgen.extras_apply(tp, src, case['extras'], env['blobs'], bs, extent_fs=cfg['fstype'] == 'ext4')
        if 'quota' in cfg['features']: tp.fsck(src, '-fy')
    if tp.fsck(src, '-fn').rc != 0: return (None, fp, False, None, classes + ['skip:base-not-clean'])
    try:
        ck = e4ref.Checker(src); f = ck.run()
        if f: return (None, fp, False, None, classes + ['skip:reader-findings-on-base'])
        meta, owned = e4ref.metadata_blocks(ck)
        d0, err0 = tool.tree_digest(src)
    except e4ref.Unsupported: return (None, fp, False, None, classes + ['skip:reader-unsupported'])
    except Exception as e: return (None, fp, False, None, classes + ['skip:reader:' + type(e).__name__])
    sha0 = vrun.sha256_file(src); base = dict(cfg=case['cfg'], mode=mode, extras=case['extras'])
    out = os.path.join(d, 'c19out.img'); out2 = os.path.join(d, 'c19out2.img'); qc = os.path.join(d, 'c19.qcow2')
    for p in (out, out2, qc):
        if os.path.exists(p): os.unlink(p)
    log = os.path.join(d, 'iot.log')
    def e2image(args, traced=False, tools=None):
        tl = tools or t
        if traced:
            if os.path.exists(log): os.unlink(log)
            return vrun.run([tp.e2image] + args, env=vrun.traced_env(log, 'c19src.img'), merge=True, cpu=300)
        return vrun.run([tl.e2image] + args, merge=True, cpu=300)
    def source_untouched(where):
        wr = [(op, off) for op, off, x in vrun.parse_trace(log) if op in 'WTF'] if os.path.exists(log) else []
        if wr or vrun.sha256_file(src) != sha0: return (dict(base, kind='source-modified', at=where, writes=wr[:5]), fp, True, None, classes)
        return None
    def fail_rc(r, what):
        if r.rc is None or r.rc >= 90: return (dict(base, kind='crash-or-sanitizer', step=what, rc=r.rc, sig=r.sig, out=r.out[-500:]), fp, True, None, classes)
        return (dict(base, kind='e2image-failed', step=what, rc=r.rc, out=r.out[-300:]), fp, True, None, classes)
    def read_blocks(path, blocks, offset=0):
        res = {}
        with open(path, 'rb') as fh:
            for b in blocks:
                fh.seek(offset + b * bs); x = fh.read(bs)
                res[b] = x + bytes(bs - len(x))
        return res
    def meta_equal(image, where):
        a = read_blocks(src, sorted(meta)); b = read_blocks(image, sorted(meta))
        bad = [blk for blk in sorted(meta) if a[blk] != b[blk]]
        if bad:
            tags = [(blk, ck.fixed.get(blk) or ck.owners.get(blk) or 'dir/symlink/special data') for blk in bad[:6]]
            return (dict(base, kind='metadata-block-differs', where=where, n=len(bad), first=[(x, str(y)) for x, y in tags]), fp, True, None, classes)
        return None
    def only_source_bytes(image, where):
        # an image block holds either the bytes the source has at that place or nothing (zeros / hole): anything else was invented by e2image
        bad = []; z = bytes(bs)
        with open(src, 'rb') as fa, open(image, 'rb') as fb:
            n = 0
            while True:
                a = fa.read(bs); b = fb.read(bs)
                if not b: break
                if b != a and b != z[:len(b)]: bad.append(n)
                n += 1
                if len(bad) > 20: break
        if bad: return (dict(base, kind='image-holds-bytes-that-are-not-in-the-source', where=where, blocks=bad[:12], owners=[str(ck.fixed.get(x) or ck.owners.get(x) or 'free') for x in bad[:6]]), fp, True, None, classes)
        return None
    def same_reports(image, where):
        for label, cmd in (('dumpe2fs', [t.dumpe2fs]), ('e2fsck -fn', [t.e2fsck, '-fn'])):
            x = vrun.run(cmd + [src], merge=True, cpu=120); y = vrun.run(cmd + [image], merge=True, cpu=120)
            xa = x.out.replace(src, '<IMG>').splitlines(); ya = y.out.replace(image, '<IMG>').splitlines()
            if x.rc != y.rc or xa != ya:
                df = [(p, q) for p, q in zip(xa, ya) if p != q][:4]
                return (dict(base, kind='tool-output-differs', tool=label, where=where, rc=(x.rc, y.rc), first_diffs=df, len=(len(xa), len(ya))), fp, True, None, classes)
        return None
    traced = case['off'] % 1024 == 0     # half of the runs go through the interposer (gcc build), the others through the ASan build
    # ---------------------------------------------------------------- modes
    if mode in ('-r', '-Q', '-Q->-r'):
        r = e2image(['-r', src, out], traced=traced)
        if r.rc != 0: return fail_rc(r, '-r')
        x = source_untouched('-r')
        if x: return x
        x = meta_equal(out, 'raw image') or only_source_bytes(out, 'raw image') or same_reports(out, 'raw image')
        if x: return x
        if mode != '-r':
            r = e2image(['-Q', src, qc], traced=traced)
            if r.rc != 0: return fail_rc(r, '-Q')
            x = source_untouched('-Q')
            if x: return x
            r = e2image(['-r', qc, out2])
            if r.rc != 0: return fail_rc(r, 'qcow2 -> raw')
            if vrun.sha256_file(out) != vrun.sha256_file(out2):
                return (dict(base, kind='qcow2-roundtrip-differs', differing_blocks=tool.changed_blocks(out, out2, bs)[:10], sizes=(os.path.getsize(out), os.path.getsize(out2))), fp, True, None, classes)
            classes.append('qcow2:l2-tables:%d' % ((cfg['blocks'] * bs + (bs // 8) * bs - 1) // ((bs // 8) * bs)))
    elif mode in ('-ra', '-Qa'):
        if mode == '-ra': r = e2image(['-ra', src, out], traced=traced)
        else:
            r = e2image(['-Qa', src, qc], traced=traced)
            if r.rc == 0: r = e2image(['-r', qc, out])
        if r.rc != 0: return fail_rc(r, mode)
        x = source_untouched(mode)
        if x: return x
        x = meta_equal(out, mode + ' image') or only_source_bytes(out, mode + ' image')
        if x: return x
        try: d1, err1 = tool.tree_digest(out)
        except Exception as e: return (dict(base, kind='copy-unreadable', err=repr(e)[:200]), fp, True, None, classes)
        df = tool.digest_diff(d0, d1)
        if df or err1: return (dict(base, kind='file-data-differs-in-copy', diffs=df, reader_errors=[repr(e_) for e_ in err1[:3]]), fp, True, None, classes)
        changed = [b for b in tool.changed_blocks(src, out, bs) if b >= 0 and b in owned]
        if changed: return (dict(base, kind='owned-block-differs-in-copy', blocks=changed[:10], who=[str(ck.fixed.get(b) or ck.owners.get(b)) for b in changed[:5]]), fp, True, None, classes)
        q = t.fsck(out, '-fn')
        if q.rc != 0: return (dict(base, kind='copy-not-consistent', says=tool.fsck_lines(q.out, 6)), fp, True, None, classes)
    elif mode == '-ra-offsets':
        # source filesystem at offset -o inside a larger file, destination at offset -O
        so = case['off']; do = [0, 4096, 65536][case['off'] % 3]
        big = os.path.join(d, 'c19big.img')
        with open(big, 'wb') as f:
            f.write(b'\xa5' * so)
            with open(src, 'rb') as g: shutil.copyfileobj(g, f)
        shab = vrun.sha256_file(big)
        with open(out, 'wb') as f: f.write(b'\x5a' * do)
        r = vrun.run([t.e2image, '-ra', '-o', str(so), '-O', str(do), big, out], merge=True, cpu=300)
        if r.rc != 0: return fail_rc(r, '-ra -o -O')
        if vrun.sha256_file(big) != shab: return (dict(base, kind='source-modified', at='-ra with offsets'), fp, True, None, classes)
        with open(out, 'rb') as f:
            if f.read(do) != b'\x5a' * do: return (dict(base, kind='bytes-below-destination-offset-changed', offset=do), fp, True, None, classes)
        view = os.path.join(d, 'c19view.img')
        with open(out, 'rb') as f, open(view, 'wb') as g:
            f.seek(do); shutil.copyfileobj(f, g)
        q = t.fsck(view, '-fn')
        if q.rc != 0: return (dict(base, kind='copy-not-consistent', says=tool.fsck_lines(q.out, 6), offsets=(so, do)), fp, True, None, classes)
        try: d1, err1 = tool.tree_digest(view)
        except Exception as e: return (dict(base, kind='copy-unreadable', err=repr(e)[:200]), fp, True, None, classes)
        df = tool.digest_diff(d0, d1)
        if df or err1: return (dict(base, kind='file-data-differs-in-copy', diffs=df, offsets=(so, do)), fp, True, None, classes)
    elif mode == 'normal':
        r = e2image([src, out], traced=True)
        if r.rc != 0: return fail_rc(r, 'normal image')
        x = source_untouched('normal image')
        if x: return x
        x = vrun.run([t.dumpe2fs, '-i', out], merge=True, cpu=120); y = vrun.run([t.dumpe2fs, src], merge=True, cpu=120)
        if x.rc is None or x.rc >= 90: return fail_rc(x, 'dumpe2fs -i')
        sx = [l for l in x.out.splitlines() if l.startswith(('Inode count', 'Block count', 'Free blocks', 'Free inodes', 'Filesystem UUID', 'Filesystem features'))]
        sy = [l for l in y.out.splitlines() if l.startswith(('Inode count', 'Block count', 'Free blocks', 'Free inodes', 'Filesystem UUID', 'Filesystem features'))]
        if sx != sy: return (dict(base, kind='normal-image-header-differs', image=sx, source=sy), fp, True, None, classes)
    kinds = set(k for b, (i, k) in ck.owners.items())
    has_tree = 'tree' in kinds; has_x = 'xattr' in kinds or any(I.fmt == 0o120000 and I.size >= 60 for I in ck.inuse.values())
    has_htree = any(I.is_dir() and I.flags & 0x1000 for I in ck.inuse.values())
    nontrivial = (has_tree or has_htree) and has_x
    return (None, fp, nontrivial, dict(base, metadata_blocks=len(meta), files=len(d0), tree_blocks=has_tree, htree=has_htree), classes)

def run(ctx):
    ctx.rule = RULE
    ctx.assumptions = ['the set of metadata blocks comes from the independent reader (extent/indirect/xattr/directory/symlink blocks, special inode data, fixed metadata); e2image may copy more than that',
                       'ownership for the -a difference check is per cluster on bigalloc']
    tool.replay_tier(ctx, body, envinit)
    n = int((150 if ctx.tier == 'quick' else 1200) * ctx.scale)
    hyp.run_property(ctx, strategy, body, envinit, n)

def replay_file(ctx, path): return tool.replay_file(ctx, path, body, envinit)

MANIFEST = dict(
    engine='hypothesis',
    technique='property-based testing with Hypothesis over (filesystem, population, e2image mode); oracles: byte comparison of every metadata block found by an independent reader, dumpe2fs/e2fsck output equality, qcow2->raw round trip, tree digest + ownership of differing blocks for -a, syscall trace and hash of the source',
    level_text='Generated-input exploration of e2image raw/qcow2/all-data/offset modes on populated filesystems of all layouts, judged block by block against an independent enumeration of the metadata.',
    level_note='Trusted: vlib/e4ref.py (metadata enumeration, digest), native/iotrace.c, sha256.')
