"""C07 — mke2fs produces a consistent filesystem with the requested geometry for every accepted configuration (Hypothesis over command lines)."""
import os, json, shutil, struct, re
from hypothesis import strategies as st
from vlib import hyp, fsgen, core, tool, run as vrun, e4ref
LEVEL = 'exploration'
FEATS = ['has_journal', 'ext_attr', 'resize_inode', 'dir_index', 'filetype', 'extent', 'flex_bg', 'sparse_super', 'large_file', 'huge_file', 'uninit_bg', 'dir_nlink', 'extra_isize', '64bit', 'meta_bg', 'inline_data',
         'bigalloc', 'quota', 'project', 'metadata_csum', 'metadata_csum_seed', 'sparse_super2', 'ea_inode', 'large_dir', 'orphan_file', 'stable_inodes', 'verity', 'fast_commit']
RULE = ('Hypothesis builds an mke2fs command line: -b 1k/2k/4k, -t ext2/3/4/none, -T usage type, -O with 0-5 features added/removed out of %d, -C, -I, -i/-N, -g (multiples of 8 up to 8*bs), -G, -m, -J size, -r 0, -L, -e, '
        '-E {stride, stripe_width, resize, offset, packed_meta_blocks, num_backup_sb, root_owner, orphan_file_size, quotatype}, -d <small host tree>, two boundary-directed profiles (many small groups x odd RAID stride without flex_bg; short last backup group x oversized reserved GDT), and a device size that is boundary-biased '
        '(k*blocks_per_group + delta around group boundaries and around multiples of descriptors-per-block groups, single group). Accepted (exit 0) => e2fsck -fn exits 0, the independent checker e4ref is clean, '
        'requested block/cluster/inode size, blocks-per-group, features, label, UUID, reserved ratio, flex size, stride/stripe, journal size and offset are in effect, size is within one group of the request, '
        'backup superblocks/descriptors sit exactly at the groups the format prescribes and equal the primary, a second identical run is byte-identical, and `mke2fs -n` beforehand wrote nothing (hash + syscall trace). '
        'non-trivial = accepted and at least 2 option groups differ from the defaults; distinct by option vector') % len(FEATS)

def strategy(env):
    feat = st.tuples(st.booleans(), st.sampled_from(FEATS))
    return st.fixed_dictionaries(dict(
        bs=st.sampled_from([1024, 1024, 2048, 4096]), fstype=st.sampled_from(['ext4', 'ext4', 'ext4', 'ext3', 'ext2', None]), usage=st.sampled_from([None, None, None, 'small', 'floppy', 'news', 'largefile', 'big']),
        feats=st.lists(feat, max_size=5), cluster=st.sampled_from([0, 0, 2, 4, 16]), isize=st.sampled_from([0, 0, 128, 256, 512, 1024]), iratio=st.sampled_from([0, 0, 1024, 4096, 8192, 65536]), ninodes=st.sampled_from([0, 0, 0, 16, 100, 5000]),
        bpg=st.sampled_from([0, 0, 256, 256, 512, 512, 1024, 1024, 2048, 4096, 8192, 777 * 8, 16384, 32768]), flex=st.sampled_from([0, 0, 1, 2, 4, 16, 64]), resv=st.sampled_from([None, None, 0, 1, 5, 17, 50]),
        jsize=st.sampled_from([0, 0, 0, 1, 4, 8]), rev0=st.sampled_from([False] * 9 + [True]), label=st.sampled_from([None, 'lbl', 'a-16-byte-label!', '']), errors=st.sampled_from([None, 'continue', 'remount-ro', 'panic']),
        stride=st.sampled_from([0, 0, 0, 1, 2, 4, 8, 13, 16, 31, 32, 64, 128]), stripe=st.sampled_from([0, 0, 8, 64]), resize=st.sampled_from([0, 0, 0, 2, 10, 2000, 100000, -1]), rem=st.integers(0, 700), offset=st.sampled_from([0, 0, 0, 512, 4096, 1000000]), packed=st.booleans(),
        nbackup=st.sampled_from([None, None, 0, 1, 2]), owner=st.sampled_from([None, None, '1000:1000', '0:0']), orphsz=st.sampled_from([0, 0, 0, 32, 64]), quotatype=st.sampled_from([None, None, 'usrquota', 'usrquota:grpquota:prjquota', 'grpquota']),
        tree=st.sampled_from([0, 0, 0, 1, 2]), sizemode=st.integers(0, 19), groups=st.sampled_from([1, 1, 2, 3, 4, 5, 7, 8, 9, 15, 16, 17, 25, 26, 27, 31, 32, 33, 49, 50, 63, 64, 65, 127, 128, 129, 256, 257]), delta=st.integers(-3, 60), lazy=st.booleans(), profile=st.sampled_from([None] * 10 + ['stride-smallgroups', 'stride-smallgroups', 'resize-window', 'resize-window']), pa=st.integers(0, 1000), pb=st.integers(0, 1000)))

def envinit(widx):
    env = hyp.img_env(widx, variants=('asan',))
    # host trees for -d
    env['trees'] = {}
    for k in (1, 2):
        d = os.path.join(env['dir'], 'tree%d' % k); os.makedirs(os.path.join(d, 'sub/deep'), exist_ok=True)
        open(os.path.join(d, 'a.txt'), 'wb').write(b'hello\n' * 100); open(os.path.join(d, 'sub/b.bin'), 'wb').write(bytes(range(256)) * 40)
        if not os.path.lexists(os.path.join(d, 'sub/lnk')): os.symlink('b.bin', os.path.join(d, 'sub/lnk'))
        if k == 2:
            for i in range(60): open(os.path.join(d, 'sub/deep/f%02d' % i), 'wb').write(b'x' * (i * 37))
            with open(os.path.join(d, 'sparse'), 'wb') as f: f.seek(200000); f.write(b'end')
        env['trees'][k] = d
    return env

def stamp(d):
    """reading the tree updates host atimes: reset all times so that both runs of the reproducibility sub-check get identical input"""
    if not d: return
    for root, dirs, files in os.walk(d):
        for n in dirs + files:
            try: os.utime(os.path.join(root, n), (1600000000, 1600000000), follow_symlinks=False)
            except Exception: pass
    os.utime(d, (1600000000, 1600000000))

def build_cmd(case, img):
    bs = case['bs']; o = ['-F', '-q', '-b', str(bs), '-U', fsgen.UUID]
    if case['fstype']: o += ['-t', case['fstype']]
    if case['usage']: o += ['-T', case['usage']]
    fl = []
    for add, f in case['feats']: fl.append(f if add else '^' + f)
    cl = case['cluster']
    if cl and 'bigalloc' not in fl and '^bigalloc' not in fl: fl.append('bigalloc')
    if fl: o += ['-O', ','.join(fl)]
    if cl: o += ['-C', str(bs * cl)]
    if case['isize']: o += ['-I', str(case['isize'])]
    if case['ninodes']: o += ['-N', str(case['ninodes'])]
    elif case['iratio']: o += ['-i', str(case['iratio'])]
    bpg = case['bpg']
    if bpg:
        bpg = min(bpg, 8 * bs); o += ['-g', str(bpg)]      # with bigalloc -g counts clusters (mke2fs.c: s_clusters_per_group = -g value)
    if case['flex']: o += ['-G', str(case['flex'])]
    if case['resv'] is not None: o += ['-m', str(case['resv'])]
    if case['jsize']: o += ['-J', 'size=%d' % case['jsize']]
    if case['rev0']: o += ['-r', '0']
    if case['label'] is not None: o += ['-L', case['label']]
    if case['errors']: o += ['-e', case['errors']]
    E = ['hash_seed=' + fsgen.HASH_SEED]
    if not case['lazy']: E += ['lazy_itable_init=0', 'lazy_journal_init=0']
    if case['stride']: E.append('stride=%d' % case['stride'])
    if case['stripe']: E.append('stripe_width=%d' % case['stripe'])
    if case['packed']: E.append('packed_meta_blocks=1')
    if case['nbackup'] is not None: E.append('num_backup_sb=%d' % case['nbackup'])
    if case['owner']: E.append('root_owner=' + case['owner'])
    if case['orphsz']: E.append('orphan_file_size=%d' % case['orphsz'])
    if case['quotatype']: E.append('quotatype=' + case['quotatype'])
    if case['offset']: E.append('offset=%d' % case['offset'])
    # size
    ebpg = (bpg or 8 * bs) * (cl or 1)
    fdb = 1 if (bs == 1024 and not cl) else 0
    g = case['groups']; mode = case['sizemode']
    if mode < 6: blocks = g * ebpg + fdb + case['delta']
    elif mode < 8: blocks = g * ebpg + fdb + (ebpg // 2) + case['delta']
    elif mode < 10:
        dpb = bs // 32; blocks = (dpb * (1 + g % 3)) * ebpg + fdb + case['delta'] * 7   # around a descriptor-block boundary
    else:
        blocks = g * ebpg + fdb + case.get('rem', 0)                                    # last group with an arbitrary small remainder (it may or may not be kept)
    blocks = max(60, min(blocks, (64 << 20) // bs))
    if case['resize']: E.append('resize=%d' % (min(blocks * case['resize'], 4294967295) if case['resize'] > 0 else 4294967295))
    o += ['-E', ','.join(E)]
    return o, blocks, ebpg

DEFAULTS = dict(fstype='ext4', usage=None, cluster=0, isize=0, iratio=0, ninodes=0, bpg=0, flex=0, resv=None, jsize=0, rev0=False, label=None, errors=None, stride=0, stripe=0, resize=0, offset=0, packed=False, nbackup=None, owner=None, orphsz=0, quotatype=None, tree=0)

def apply_profile(case):
    """boundary-directed profiles: parameter regions where table placement arithmetic has its corner cases (everything else stays as drawn)"""
    pr = case.get('profile')
    if not pr: return case
    c = dict(case); a = case.get('pa', 0); b = case.get('pb', 0)
    if pr == 'stride-smallgroups':
        # RAID stride rotates the bitmaps inside each group: with at least as many groups as blocks per group and a stride coprime to the usable group size, every residue - incl. the last block of a group - is reached
        c.update(bs=1024, cluster=0, bpg=256, groups=[250, 253, 255, 256, 256][a % 5], sizemode=0, delta=0 if b % 3 else b % 5, stride=[1, 3, 5, 7, 11, 13, 17, 31][b % 8], fstype=['ext2', 'ext3', 'ext2'][a % 3], tree=0, offset=0,
                 isize=[0, 128, 256][a % 3], ninodes=[0, 0, 5000][b % 3], iratio=0, resize=0, jsize=0, usage=None, feats=[f for f in case['feats'] if f[1] in ('sparse_super', 'resize_inode', 'dir_index', 'filetype', 'large_file')])
    elif pr == 'resize-window':
        # a short last group that carries a superblock backup, next to a reserved-GDT area much larger than the default: the "is the last group worth keeping" threshold
        c.update(bs=[1024, 1024, 4096][a % 3], cluster=0, bpg=0, groups=[1, 3, 5, 7, 9, 25][b % 6], sizemode=10, rem=60 + (a * 7 + b) % 420, resize=[-1, 100000, 2000][b % 3], fstype='ext4', tree=0, offset=0, ninodes=[16, 64, 100, 300][a % 4], iratio=0,
                 isize=0, jsize=0, usage=None, flex=[0, 4, 16][b % 3], feats=[f for f in case['feats'] if f[1] in ('sparse_super', 'resize_inode', 'has_journal', 'metadata_csum', '64bit', 'huge_file')])
        if c['bs'] == 4096: c['groups'] = 1
    return c

def body(case, env):
    case = apply_profile(case)
    fp = core.stable_hash(case); classes = ['bs:%d' % case['bs'], 'fstype:%s' % case['fstype']]
    d = env['dir']; img = os.path.join(d, 'mk.img'); img2 = os.path.join(d, 'mk2.img')
    opts, blocks, ebpg = build_cmd(case, img)
    bs = case['bs']; off = case['offset']
    fsize = off + blocks * bs
    def prefill(p):
        with open(p, 'wb') as f:
            if off: f.write(b'\xa5' * off)
            f.truncate(fsize)
    tree = env['trees'].get(case['tree'])
    cmd_tail = (['-d', tree] if tree else [])
    renv = {'SOURCE_DATE_EPOCH': str(vrun.FAKE_TIME)} if tree else {}
    # ---- mke2fs -n first: must write nothing ----
    prefill(img)
    h0 = vrun.sha256_file(img); log = os.path.join(d, 'iot.log')
    if os.path.exists(log): os.unlink(log)
    e = dict(renv); e.update(vrun.traced_env(log, 'mk.img'))
    stamp(tree)
    pn = vrun.run([env['plain'].mke2fs, '-n'] + opts + cmd_tail + [img, str(blocks)], env=e, merge=True, cpu=60)
    wr = [(op, o_) for op, o_, x in vrun.parse_trace(log) if op in 'WTF']
    if vrun.sha256_file(img) != h0 or os.path.getsize(img) != fsize or wr:
        return (dict(kind='dry-run-wrote', opts=opts, blocks=blocks, writes=wr[:5], out=pn.out[-300:]), fp, True, None, classes)
    # ---- real run (ASan build) ----
    t = env['asan']; stamp(tree)
    p = vrun.run([t.mke2fs] + opts + cmd_tail + [img, str(blocks)], env=renv, merge=True, cpu=120)
    if p.rc != 0:
        classes.append('rejected' if p.rc == 1 else 'rc:%s' % (p.rc if p.rc is not None else 'sig%s' % p.sig))
        if p.rc is None or p.rc >= 90: classes.append('mke2fs-sanitizer-or-signal(not judged here)')
        return (None, fp, False, None, classes)
    classes.append('accepted')
    base = dict(opts=opts, blocks=blocks, tree=case['tree'], mke2fs_says=p.out[-300:])
    # (1) consistency
    view = img
    if off:
        view = os.path.join(d, 'view.img')
        with open(img, 'rb') as f, open(view, 'wb') as g:
            pre = f.read(off)
            if pre != b'\xa5' * off: return (dict(base, kind='bytes-below-offset-changed'), fp, True, None, classes)
            shutil.copyfileobj(f, g)
    q = t.fsck(view, '-fn')
    if q.rc != 0:
        return (dict(base, kind='e2fsck-not-clean', rc=q.rc, says=tool.fsck_lines(q.out), quota='quota' in ' '.join(opts) or bool(case['quotatype']), with_tree=bool(tree)), fp, True, None, classes)
    status, findings = tool.ref_clean(view)
    classes.append('ref:' + status)
    if status == 'broken':
        return (dict(base, kind='independent-checker-disagrees', findings=findings), fp, True, None, classes)
    # (2) requested vs actual
    sb = tool.sb_fields(view); bad = []
    feats = set(tool.feature_set(sb))
    if sb['magic'] != 0xEF53: bad.append('magic')
    if sb['bs'] != bs: bad.append('block size %d' % sb['bs'])
    if case['cluster'] and 'bigalloc' in feats and (1024 << sb['log_cs']) != bs * case['cluster']: bad.append('cluster size %d' % (1024 << sb['log_cs']))
    if case['isize'] and not case['rev0'] and sb['isize'] != case['isize']: bad.append('inode size %d' % sb['isize'])
    got_bpg = sb['cpg'] if 'bigalloc' in feats else sb['bpg']
    # ext2fs_initialize lowers blocks-per-group (by design, in steps of 8) when the requested number of inodes does not fit one inode bitmap per group
    if case['bpg'] and got_bpg != min(case['bpg'], 8 * bs) and not ((case['iratio'] or case['ninodes'] or case['usage']) and got_bpg < case['bpg']): bad.append('blocks(clusters) per group %d/%d' % (sb['bpg'], sb['cpg']))
    if sb['uuid'] != fsgen.UUID.replace('-', ''): bad.append('uuid')
    if case['label'] is not None and sb['label'] != case['label'].encode()[:16]: bad.append('label %r' % sb['label'])
    said = p.out.lower()
    final = {}
    for add, f in case['feats']: final[f] = add
    for f, add in final.items():
        if add and f == 'has_journal' and 'too small for a journal' in said: continue
        if add and f == 'resize_inode' and 'meta_bg' in feats: continue     # initialize.c switches to meta_bg when the reserved GDT would eat 3/4 of a group
        if not add and f == 'has_journal' and case['jsize']: continue       # an explicit -J asks for a journal
        if not add and f == 'resize_inode' and case['resize']: continue     # -E resize= implies resize_inode
        if not add and f == 'large_file': continue                          # set automatically whenever an inode (e.g. the resize inode) exceeds 2 GiB
        if not add and f == 'bigalloc' and case['cluster']: continue
        if not add and f == 'meta_bg' and 'resize_inode' not in feats: continue   # same automatic switch (descriptors would not fit the group otherwise)
        if add and f == 'orphan_file' and ('has_journal' not in feats or final.get('has_journal') is False): continue
        if add and f == 'metadata_csum_seed' and 'metadata_csum' not in feats: continue   # the seed feature only exists together with metadata_csum    # mke2fs drops orphan_file (an ext4 default) when there is no journal
        if not add and f in ('quota', 'project') and case['quotatype']: continue   # -E quotatype= asks for the quota types (prjquota implies project)        # the harness itself adds -C
        if add and f not in feats and f not in said and not case['rev0']:
            # features that are implemented as other on-disk state
            if f in ('uninit_bg',) and 'metadata_csum' in feats: continue      # documented: metadata_csum supersedes uninit_bg
            if f in ('quota',) and (sb['usr_q'] or sb['grp_q'] or sb['prj_q']): continue
            bad.append('requested feature %s missing' % f)
        if not add and f in feats:
            bad.append('removed feature %s present' % f)
    nb = sb['nblocks']
    if not (blocks - ebpg < nb <= blocks): bad.append('blocks_count %d for request %d' % (nb, blocks))
    if case['resv'] is not None:
        want = case['resv'] * nb / 100.0
        rb = sb['r_blocks'] | (sb['r_blocks_hi'] << 32 if '64bit' in feats else 0)
        if abs(rb - want) > 2.5: bad.append(   # tolerance: mke2fs converts blocks->ratio->blocks in floating point around the last-group trim
            'reserved blocks %d for %d%% of %d' % (rb, case['resv'], nb))
    if case['flex'] and 'flex_bg' in feats and case['flex'] > 1 and (1 << sb['log_gpf']) != case['flex']: bad.append('flex size %d' % (1 << sb['log_gpf']))
    if case['stride'] and sb['raid_stride'] != case['stride']: bad.append('stride %d' % sb['raid_stride'])
    if case['stripe'] and sb['raid_stripe_width'] != case['stripe'] and 'stripe' not in said: bad.append('stripe width %d' % sb['raid_stripe_width'])
    if case['errors'] and sb['errors'] != dict(**{'continue': 1, 'remount-ro': 2, 'panic': 3})[case['errors']]: bad.append('errors behaviour %d' % sb['errors'])
    if case['jsize'] and 'has_journal' in feats and sb['journal_inum']:
        try:
            J = e4ref.FS(view).read_inode(sb['journal_inum'])
            want = case['jsize'] << 20
            if 'fast_commit' in feats:
                # with fast_commit the journal inode also holds the fast-commit area (s_num_fc_blks of the journal superblock): inode size = requested size + that area
                try:
                    Rj = e4ref.Reader(view); jb = Rj.blockmap(J)[0][1]; jsb = Rj.fs.rb(jb); nfc = struct.unpack_from('>I', jsb, 0x54)[0]; want += (nfc if nfc else 256) * Rj.fs.bs      # s_num_fc_blks (0 = the default of 256 blocks)
                except Exception: pass
            if J.size != want: bad.append('journal size %d (expected %d)' % (J.size, want))
        except Exception as ex: bad.append('journal inode unreadable %r' % ex)
    if case['owner'] and not tree:
        try:
            R = e4ref.FS(view).read_inode(2); u, g_ = map(int, case['owner'].split(':'))
            if (R.uid, R.gid) != (u, g_): bad.append('root owner %d:%d' % (R.uid, R.gid))
        except Exception as ex: bad.append('root inode unreadable %r' % ex)
    if bad: return (dict(base, kind='requested-vs-actual', mismatches=bad), fp, True, None, classes)
    # (3) backups exactly where the format prescribes, equal to the primary
    try:
        fs = e4ref.FS(view); pb = []
        fs.f.seek(fs.off + 1024); prim_sb = fs.f.read(1024)
        meta = bool(fs.incompat & 0x10)
        for g in range(fs.ngroups):
            first = fs.gfirst(g)
            if g == 0: fs.f.seek(fs.off + 1024); cand = fs.f.read(1024)     # the primary always sits at byte 1024
            else: cand = fs.rb(first)[:1024]
            looks = struct.unpack_from('<H', cand, 0x38)[0] == 0xEF53 and struct.unpack_from('<H', cand, 0x5a)[0] == g
            if fs.has_super(g) and not looks: pb.append('group %d must hold a superblock copy' % g)
            if not fs.has_super(g) and looks and g: pb.append('group %d holds a superblock copy it must not have' % g)
            if g and fs.has_super(g) and looks:
                # identical to the primary except s_block_group_nr (and the checksum that covers it)
                # identical except s_block_group_nr, s_state (backups are written not-VALID), and the checksum covering them
                a = bytearray(cand); b = bytearray(prim_sb)
                for lo, hi in ((0x5a, 0x5c), (0x3fc, 0x400), (0x3a, 0x3c)): a[lo:hi] = b[lo:hi]
                if a != b: pb.append('superblock copy in group %d differs from the primary' % g)
                if not meta:
                    for i in range(fs.desc_blocks):
                        if fs.rb(first + 1 + i) != fs.rb(fs.gd_block(0) + i): pb.append('descriptor copy %d in group %d differs' % (i, g)); break
        if meta:
            for mg in range(fs.first_meta_bg, fs.desc_blocks):
                g0 = mg * fs.dpb; prim = fs.rb(fs.gd_block(g0))
                for g in (g0 + 1, g0 + fs.dpb - 1):
                    if g < fs.ngroups and g != g0:
                        if fs.rb(fs.gfirst(g) + (1 if fs.has_super(g) else 0)) != prim: pb.append('meta_bg descriptor backup in group %d differs' % g)
        if pb: return (dict(base, kind='backups', problems=pb[:6]), fp, True, None, classes)
    except e4ref.Unsupported: classes.append('backups:unsupported')
    # (4) reproducible
    prefill(img2); stamp(tree)
    p2 = vrun.run([t.mke2fs] + opts + cmd_tail + [img2, str(blocks)], env=renv, merge=True, cpu=120)
    if p2.rc != 0 or vrun.sha256_file(img) != vrun.sha256_file(img2):
        cb = tool.changed_blocks(img, img2, bs)
        return (dict(base, kind='not-reproducible', rc2=p2.rc, differing_blocks=cb[:10]), fp, True, None, classes)
    ndiff = sum(1 for k, v in DEFAULTS.items() if case.get(k) != v) + (1 if case['feats'] else 0)
    for k, v in DEFAULTS.items():
        if case.get(k) != v: classes.append('opt:' + k)
    if case.get('profile'): classes.append('profile:' + case['profile'])
    classes.append('groups:%s' % ('1' if nb <= ebpg else '2-8' if nb <= 8 * ebpg else '9-64' if nb <= 64 * ebpg else '65+'))
    for f in sorted(feats & {'bigalloc', 'meta_bg', 'sparse_super2', 'inline_data', 'quota', 'flex_bg', '64bit', 'metadata_csum'}): classes.append('feat:' + f)
    return (None, fp, ndiff >= 2, dict(cmd=' '.join(opts + cmd_tail) + ' <img> %d' % blocks, blocks_count=nb, features=sorted(feats)), classes)

def run(ctx):
    ctx.rule = RULE
    ctx.assumptions = ['a feature that mke2fs says it disabled/ignored in its output is not required to be present', 'blocks_count may be up to one group below the request (documented trimming of a too-small last group / cluster rounding)',
                       'reproducibility is judged with fixed -U, hash_seed, E2FSPROGS_FAKE_TIME (and SOURCE_DATE_EPOCH for -d, which clamps host ctimes)', 'sanitizer reports of mke2fs itself on rejected command lines are counted, not judged (C06 is about images, C07 about accepted configurations)']
    tool.replay_tier(ctx, body, envinit)
    n = int((220 if ctx.tier == 'quick' else 6000) * ctx.scale)
    hyp.run_property(ctx, strategy, body, envinit, n)

def replay_file(ctx, path): return tool.replay_file(ctx, path, body, envinit)

MANIFEST = dict(
    engine='hypothesis',
    technique='property-based testing with Hypothesis over mke2fs command lines and boundary-biased device sizes; oracles: e2fsck -fn, independent checker e4ref, independent superblock/backup parse, run-twice determinism, dry-run syscall trace',
    level_text='Generated-input exploration of the mke2fs option space; every accepted configuration is checked for consistency by e2fsck and by an independent checker, for requested-vs-actual geometry, backup placement, reproducibility and dry-run purity.',
    level_note='Trusted: vlib/e4ref.py (consistency, backup group rule), vlib/tool.sb_fields (independent superblock parse), native/iotrace.c for the -n sub-check.')
