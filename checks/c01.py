"""C01 — e2fsck repairs converge: after a successful `e2fsck -fy`, `e2fsck -fn` reports nothing and exits 0 (Hypothesis, structure-aware corruption)."""
import os, json
from hypothesis import strategies as st
from vlib import hyp, corrupt, fsgen, core
LEVEL = 'exploration'
RULE = ('Hypothesis draws (filesystem configuration out of %d feature/block-size/geometry sets, population recipe, 1-6 structure-aware mutations: class x object x field x mutation kind x value x '
        'checksum-fix-up, incl. unstructured byte noise and whole-block copy/zero); the populated valid image is corrupted, `e2fsck -fy` is run, and when its exit status claims success '
        '`e2fsck -fn` must exit 0 and log no problem code in its XML problem log; non-trivial = the first run fixed at least one problem and claimed success; distinct by (config, recipe, mutation list)') % len(fsgen.CONFIGS)
CFG_NAMES = [c['name'] for c in fsgen.CONFIGS]

def strategy(env):
    # two thirds: 1-6 structure-aware mutations; one third: one or two directed mutations (a block-number / count / size field of one object at a boundary value, or an unreachable / multiply-claimed
    # structure, checksums fixed) - single damage whose repair must converge on its own, not hidden among the side effects of other damage. The quota configuration is drawn twice as often
    # (its repair has an extra consumer: the quota files written at the end of the run).
    from checks import c02
    general = st.lists(hyp.mutation, min_size=1, max_size=int(os.environ.get('VERIF_C01_MAXMUT', '6')))
    return st.fixed_dictionaries(dict(cfg=st.sampled_from(CFG_NAMES + [c for c in CFG_NAMES if 'quota' in c]), recipe=st.integers(0, len(hyp.RECIPES) - 1), muts=st.one_of(general, general, st.lists(c02.directed, min_size=1, max_size=2))))

def envinit(widx):
    return hyp.img_env(widx, variants=('asan',))

def body(case, env):
    classes = ['cfg:' + case['cfg']]
    fp = core.stable_hash(case)
    tpl = hyp.template(env, case['cfg'], case['recipe'])
    if tpl is None: return (None, fp, False, None, classes + ['skip:template-build-failed'])
    img = hyp.fresh_copy(env, tpl)
    try:
        desc = corrupt.apply(img, [tuple(m) for m in case['muts']])
    except Exception as e:
        return (None, fp, False, None, classes + ['skip:corruptor-error'])
    if not desc: return (None, fp, False, None, classes + ['skip:nothing-applied'])
    for m in case['muts']: classes.append('mut:' + corrupt.CLASSES[m[0] % len(corrupt.CLASSES)])
    t = env['asan']
    p1, probs1 = hyp.fsck_logged(t, img, '-fy', env)
    if (p1.rc is None and not p1.cpu_limit_hit and not p1.truncated and p1.sig != 25) or (p1.rc is not None and p1.rc >= 90):
        # a repair run that dies (fatal signal caught by e2fsck's own handler, sanitizer abort) has not repaired anything
        return (dict(kind='repair-run-crashed', cfg=case['cfg'], areas=corrupt.areas(desc), rc1=p1.rc, sig=p1.sig, applied=desc, tail=[l for l in p1.out.splitlines() if l.strip()][-12:]), fp, True, None, classes)
    if p1.rc is None or p1.rc & ~3 or p1.cpu_limit_hit:
        classes.append('first-run:not-claimed:rc=%s' % (p1.rc if p1.rc is not None else 'sig%s' % p1.sig))
        return (None, fp, False, None, classes)
    fixed = [c for c, a in probs1 if a == 1]
    classes.append('first-run:%s' % ('fixed' if (p1.rc & 1 or fixed) else 'nothing-to-fix'))
    p2, probs2 = hyp.fsck_logged(t, img, '-fn', env)
    codes2 = sorted(set(c for c, a in probs2))
    if p2.rc != 0 or codes2:
        first_lines = [l for l in p2.out.splitlines() if l and not l.startswith(('Pass ', 'e2fsck ')) and 'WARNING' not in l][:6]
        targets = corrupt.areas(desc)
        if 'quota' in ' '.join(fsgen.config_by_name(case['cfg'])['features']): targets = targets + ['cfg:quota']
        if 'bigalloc' in ' '.join(fsgen.config_by_name(case['cfg'])['features']): targets = targets + ['cfg:bigalloc']
        obs = dict(kind='not-converged', cfg=case['cfg'], areas=targets, rc1=p1.rc, rc2=p2.rc, second_codes=codes2, first_fixed=sorted(set(fixed))[:30], second_run_says=first_lines, applied=desc)
        # what the first run had to deal with, as far as a known finding needs it to be told apart
        inv = []
        if 'quota inode>' in p1.out and 'ultiply-claimed block' in p1.out: inv.append('quota-inode-shared-blocks')
        obs['first_run_involves'] = inv
        return (obs, fp, True, None, classes)
    nontrivial = bool(p1.rc & 1 or fixed)
    sample = dict(cfg=case['cfg'], applied=desc, first_run_fixed=sorted(set(fixed))[:8]) if nontrivial else None
    return (None, fp, nontrivial, sample, classes)

def run(ctx):
    ctx.rule = RULE
    ctx.assumptions = ['"reports no problem" is judged from the exit status and from e2fsck\'s own XML problem log of the second run', 'first runs that do not claim success (exit bits 4,8,16,32,128, signals, CPU limit) are counted, not judged']
    replay_tier(ctx)
    n = int((500 if ctx.tier == "quick" else 4000) * ctx.scale)
    hyp.run_property(ctx, strategy, body, envinit, n)

def replay_tier(ctx):
    import glob
    env = None
    for p in sorted(glob.glob(os.path.join(core.VERIF, 'replays', ctx.prop, '*.json'))):
        j = json.load(open(p)); env = env or envinit(99)
        obs = body(j['case'], env)[0]
        ctx.res.count('replay:' + ('fail' if obs else 'pass'))
        if obs: obs['replay_of'] = os.path.basename(p); ctx.res.violations.append(dict(obs=obs, case=j['case']))

def replay_file(ctx, path):
    j = json.load(open(path)); obs = body(j['case'], envinit(99))[0]
    if obs:
        e = ctx.classify(obs)
        if e: print('KNOWN-FINDING: property=%s %s [%s]' % (ctx.prop, e['what'], e['id'])); return 0
        print(json.dumps(obs, indent=1)); print('VIOLATION property=%s replay=%s' % (ctx.prop, path)); return 1
    print('replay passes: %s' % path); return 0

MANIFEST = dict(
    engine='hypothesis',
    technique='property-based testing with Hypothesis: structure-aware image corruption, oracle = second e2fsck run (exit status + problem log)',
    level_text='Generated-input exploration: thousands of corrupted images per run across %d configurations; each case runs the real e2fsck twice (ASan build). Evidence that one repair pass converges on the explored corruptions.' % len(fsgen.CONFIGS),
    level_note='Trusted: the corruptor only needs to produce bytes (any image is a legal input); the oracle is e2fsck\'s own second verdict, as the property states.')
