"""C20 — backup superblocks and descriptors are always usable (Hypothesis over geometries x producer histories x backup locations)."""
import os, json, shutil, struct, random
from hypothesis import strategies as st
from vlib import hyp, fsgen, core, tool, run as vrun, e4ref, corrupt
LEVEL = 'exploration'
KINDS = ['sparse_super', 'sparse_super2-2', 'sparse_super2-1', 'sparse_super2-0', 'meta_bg', 'no-sparse', 'ext2', 'ext3', 'flex', '32bit', 'bigalloc', 'meta_bg-ext2']
HIST = ['mke2fs', 'resize-grow', 'resize-shrink', 'tune2fs-uuid', 'tune2fs-csum-off', 'tune2fs-csum-on', 'tune2fs-label', 'e2fsck-repair', 'resize-grow+tune2fs-uuid', 'tune2fs-isize', 'resize-shrink+e2fsck-repair']
RULE = ('Hypothesis draws a geometry (block size 1k/2k/4k, blocks-per-group 256..default, 1..~140 groups incl. powers of 3/5/7 and their neighbours, layout kind out of %s, resize= reservation) and a producer history out of %s; '
        'oracle (1): the groups holding a superblock copy are exactly those the format prescribes (independent rule in e4ref.has_super) and every copy carries the current geometry/feature fields; '
        'oracle (2): the primary superblock and all primary descriptor blocks are destroyed (zero or noise), `e2fsck -fy -b <location> -B <bs>` is run for prescribed backup locations (all when <= 4, else 4 drawn ones; plain `e2fsck -fy` too when the group size is the default), '
        'it must exit 0/1, a following e2fsck -fn must exit 0, the independent checker must be clean and the tree digest must equal the digest before destruction; '
        'non-trivial = at least 3 backup groups and a producer other than plain mke2fs; distinct by (geometry, history, location)') % (KINDS, HIST)
GROUPS = [1, 2, 3, 4, 5, 6, 7, 8, 9, 10, 24, 25, 26, 27, 28, 48, 49, 50, 80, 81, 82, 124, 125, 126, 3, 5, 7, 9, 25, 27, 49]

def strategy(env):
    return st.fixed_dictionaries(dict(bs=st.sampled_from([1024, 1024, 2048, 4096]), bpg=st.sampled_from([0, 256, 256, 512, 1024, 2048]), groups=st.sampled_from(GROUPS), tail=st.integers(0, 3), kind=st.integers(0, len(KINDS) - 1),
                                      hist=st.integers(0, len(HIST) - 1), resize=st.booleans(), loc=st.integers(0, 1000), noise=st.booleans(), rsz=st.integers(1, 60)))

def envinit(widx):
    return hyp.img_env(widx, variants=('asan',))

def mk(case):
    bs = case['bs']; kind = KINDS[case['kind']]
    cl = 4 if kind == 'bigalloc' else 1
    bpg = case['bpg'] or 8 * bs
    bpg = min(bpg, 8 * bs)
    ebpg = bpg * cl
    g = case['groups']
    if ebpg * g * bs > (48 << 20): g = max(1, (48 << 20) // (ebpg * bs))
    fdb = 1 if (bs == 1024 and cl == 1) else 0
    blocks = g * ebpg + fdb + [0, 0, ebpg // 2, ebpg // 3 + 60][case['tail']] * (1 if g > 1 else 0)
    feats = []; extra = ['-g', str(bpg)]; fstype = 'ext4'; E = []
    if kind.startswith('sparse_super2'): feats += ['sparse_super2', '^resize_inode']; E.append('num_backup_sb=' + kind[-1])
    elif kind == 'meta_bg': feats += ['meta_bg', '^resize_inode']
    elif kind == 'meta_bg-ext2': feats += ['meta_bg', '^resize_inode']; fstype = 'ext2'      # no group checksums: no BLOCK_UNINIT flag hides a misplaced descriptor copy
    elif kind == 'no-sparse': feats += ['^sparse_super', '^resize_inode']
    elif kind == 'ext2': fstype = 'ext2'
    elif kind == 'ext3': fstype = 'ext3'
    elif kind == 'flex': extra += ['-G', '4']
    elif kind == '32bit': feats += ['^64bit']
    elif kind == 'bigalloc': feats += ['bigalloc']; extra += ['-C', str(bs * cl)]
    if case['resize'] and 'resize_inode' not in ' '.join(feats): E.append('resize=%d' % (blocks * 4))
    if ebpg >= 1024 or g < 6: extra += ['-N', str(max(320, g * 16))]
    else: extra += ['-N', str(max(320, g * 8))]
    if E: extra += ['-E', ','.join(E)]
    return dict(name='c20', fstype=fstype, bs=bs, blocks=blocks, features=feats, extra=extra), ebpg

def small_population(cfg, blobdir):
    c = []
    mid = fsgen._blob(blobdir, 'mid', 5000, 2); small = fsgen._blob(blobdir, 'small', 37, 3); big = fsgen._blob(blobdir, 'big20', 60000, 9)
    c += ['write %s big' % big, 'write %s mid' % mid, 'write %s small' % small, 'mkdir d1', 'mkdir d1/d2', 'write %s d1/d2/deep' % mid, 'symlink sl /%s' % ('y' * 100), 'symlink fl abc']
    c += ['mkdir many', 'cd many'] + ['write /dev/null f%03d' % i for i in range(40)] + ['cd /', 'ln mid d1/hl', 'sif mid links_count 2']
    if cfg['fstype'] != 'ext2' or True: c += ['ea_set mid user.a v1']
    # top-level directories are spread over the block groups by the allocator; with few inodes per group they reach the last groups, so every group's descriptors and tables matter for the restore
    for i in range(90): c += ['mkdir s%02d' % i, 'write %s s%02d/f' % (small, i)]
    # libext2fs allocates inodes first-fit from the parent's group: to put inodes (and hence live descriptors/tables) into the LAST groups the table has to be filled
    try: ninodes = int(cfg['extra'][cfg['extra'].index('-N') + 1])
    except Exception: ninodes = 0
    if 0 < ninodes <= 1300:
        c += ['mkdir fill', 'cd fill'] + ['write /dev/null i%04d' % i for i in range(max(0, ninodes - 300))] + ['cd /']
    return c

def body(case, env):
    fp = core.stable_hash(case); kind = KINDS[case['kind']]; hist = HIST[case['hist']]
    classes = ['kind:' + kind, 'hist:' + hist, 'bs:%d' % case['bs']]
    cfg, ebpg = mk(case); t = env['plain']; ta = env['asan']; d = env['dir']
    img = os.path.join(d, 'c20.img')
    p = fsgen.mk_config(t, img, cfg)
    if p.rc != 0: return (None, fp, False, None, classes + ['skip:mke2fs-rejected'])
    t.dbg(img, small_population(cfg, env['blobs']), write=True, cpu=60)
    if t.fsck(img, '-fn').rc != 0: return (None, fp, False, None, classes + ['skip:base-not-clean'])
    # ---- producer history ----
    bs = cfg['bs']; steps = hist.split('+'); log = []
    for stp in steps:
        if stp == 'mke2fs': continue
        if stp == 'resize-grow':
            new = cfg['blocks'] + ebpg * (1 + case['rsz'] % 9) + (case['rsz'] * 7) % ebpg
            new = min(new, (64 << 20) // bs)
            r = vrun.run([t.resize2fs, img, str(new)], merge=True, cpu=120)
        elif stp == 'resize-shrink':
            mn = vrun.run([t.resize2fs, '-P', img], merge=True).out.strip().split()
            try: mn = int(mn[-1])
            except Exception: return (None, fp, False, None, classes + ['skip:no-min-size'])
            new = max(mn + 8, cfg['blocks'] - ebpg * (1 + case['rsz'] % 5) - (case['rsz'] * 5) % ebpg)
            if new >= cfg['blocks']: return (None, fp, False, None, classes + ['skip:cannot-shrink'])
            r = vrun.run([t.resize2fs, img, str(new)], merge=True, cpu=120)
        elif stp == 'tune2fs-uuid': r = vrun.run([t.tune2fs, '-f', '-U', '00112233-4455-6677-8899-aabbccddeeff', img], merge=True, cpu=60, stdin='y\n')
        elif stp == 'tune2fs-csum-off': r = vrun.run([t.tune2fs, '-O', '^metadata_csum', img], merge=True, cpu=60)
        elif stp == 'tune2fs-csum-on': r = vrun.run([t.tune2fs, '-O', 'metadata_csum', img], merge=True, cpu=60)
        elif stp == 'tune2fs-label': r = vrun.run([t.tune2fs, '-L', 'newlabel', '-c', '20', img], merge=True)
        elif stp == 'tune2fs-isize': r = vrun.run([t.tune2fs, '-I', '512', img], merge=True, cpu=120)
        elif stp == 'e2fsck-repair':
            try: desc = corrupt.apply_summary(img, [(0, case['loc'] % 7, 3, 5, False), (2, case['loc'] % 5, 0, 1, False), (1, 0, 9, 2, False)])
            except Exception: desc = []
            r = t.fsck(img, '-fy'); r.rc = 0 if r.rc in (0, 1) else r.rc
        log.append('%s rc=%s' % (stp, r.rc))
        if r.rc != 0: return (None, fp, False, None, classes + ['skip:history-step-refused:' + stp])
        if 'e2fsck -f' in r.out or 'run e2fsck' in r.out.lower(): t.fsck(img, '-fy')
    q = t.fsck(img, '-fn')
    if q.rc != 0:
        if os.environ.get('VERIF_C20_DEBUG'): print('NOTCLEAN', hist, cfg, log, tool.fsck_lines(q.out, 4))
        return (None, fp, False, None, classes + ['skip:not-clean-after-history(other properties):' + hist])
    try:
        fs = e4ref.FS(img); d0, err0 = tool.tree_digest(img)
    except Exception as e: return (None, fp, False, None, classes + ['skip:reader:' + type(e).__name__])
    if err0: return (None, fp, False, None, classes + ['skip:reader-findings-on-base'])
    base = dict(mkfs=' '.join(cfg['features'] + cfg['extra']) + ' bs=%d blocks=%d' % (bs, cfg['blocks']), history=log, ngroups=fs.ngroups, kind=kind, hist=hist)
    # ---- (1) exact backup set, current geometry ----
    fs.f.seek(1024); prim = fs.f.read(1024); pb = []
    GEO = [(0, 4), (4, 8), (0x14, 0x2c), (0x4c, 0x50), (0x54, 0x5a), (0x5c, 0x68), (0x68, 0x78), (0xce, 0xd0), (0xfe, 0x100), (0x104, 0x108), (0x150, 0x154), (0x24c, 0x254)]
    bgroups = []
    for g in range(fs.ngroups):
        blk = fs.rb(fs.gfirst(g)); cand = prim if g == 0 else blk[:1024]
        looks = struct.unpack_from('<H', cand, 0x38)[0] == 0xEF53 and struct.unpack_from('<H', cand, 0x5a)[0] == g
        if fs.has_super(g):
            if g: bgroups.append(g)
            if not looks: pb.append('group %d must hold a superblock copy and does not' % g)
            elif g:
                for lo, hi in GEO:
                    a = cand[lo:hi]; b = prim[lo:hi]
                    if (lo, hi) == (0x5c, 0x68):   # features: needs_recovery / orphan_present are run-time state
                        a = bytearray(a); b = bytearray(b); a[4] &= ~4; b[4] &= ~4; a[10] &= ~1; b[10] &= ~1
                    if a != b: pb.append('superblock copy in group %d is stale (bytes %#x-%#x differ from the primary)' % (g, lo, hi)); break
        elif looks and g and 'resize' not in hist: pb.append('group %d holds a superblock copy it must not have' % g)   # after a resize a freed former backup block may keep stale bytes; allocation is judged by the independent checker below
    if pb: return (dict(base, what='backup-set', problems=pb[:5]), fp, True, None, classes)
    stt, fnd = tool.ref_clean(img)     # per-group overhead = exactly the prescribed copies (bitmaps vs. computed fixed metadata)
    if stt == 'broken': return (dict(base, what='independent-checker-on-base', findings=fnd), fp, True, None, classes)
    classes.append('backups:%s' % ('0' if not bgroups else '1-2' if len(bgroups) < 3 else '3+'))
    if not bgroups: return (None, fp, False, None, classes)
    # ---- (2) destroy primary sb + descriptors, restore from backup locations ----
    rnd = random.Random(case['loc'])
    locs = bgroups if len(bgroups) <= 4 else rnd.sample(bgroups, 4)
    prim_gd = sorted(set(fs.gd_block(g) for g in range(fs.ngroups)))
    default_bpg = fs.bpg == 8 * bs * fs.cratio
    tries = [('-b', g) for g in locs] + ([('plain', None)] if default_bpg else [])
    for how, g in tries:
        w = os.path.join(d, 'c20w.img'); shutil.copyfile(img, w)
        with open(w, 'r+b') as f:
            junk = (lambda n: bytes(rnd.getrandbits(8) for _ in range(n))) if case['noise'] else (lambda n: bytes(n))
            f.seek(1024); f.write(junk(1024))
            for b in prim_gd: f.seek(b * bs); f.write(junk(bs))
        opts = '-fy' if how == 'plain' else '-fy -b %d -B %d' % (fs.gfirst(g), bs)
        r = ta.fsck(w, opts, cpu=120)
        o = dict(base, what='restore', location=('group %d block %d' % (g, fs.gfirst(g))) if g is not None else 'plain e2fsck', rc=r.rc)
        if r.rc not in (0, 1): return (dict(o, says=tool.fsck_lines(r.out, 8), tail=r.out[-300:]), fp, True, None, classes)
        r2 = ta.fsck(w, '-fn')
        if r2.rc != 0: return (dict(o, what='not-clean-after-restore', says=tool.fsck_lines(r2.out, 8)), fp, True, None, classes)
        stt, fnd = tool.ref_clean(w)
        if stt == 'broken': return (dict(o, what='independent-checker-after-restore', findings=fnd), fp, True, None, classes)
        try: d1, err1 = tool.tree_digest(w)
        except Exception as e: return (dict(o, what='tree-unreadable-after-restore', err=repr(e)[:200]), fp, True, None, classes)
        df = tool.digest_diff(d0, d1)
        if df: return (dict(o, what='files-changed-by-restore', diffs=df), fp, True, None, classes)
        classes.append('restored:' + how)
    nontrivial = len(bgroups) >= 3 and hist != 'mke2fs'
    return (None, fp, nontrivial, dict(base, backup_groups=bgroups[:12], restored_from=[x[1] for x in tries]), classes)

def run(ctx):
    ctx.rule = RULE
    ctx.assumptions = ['a history step that the tool refuses, or that leaves an inconsistent filesystem, is counted and left to C08/C11', 'exit status 0 or 1 of the restoring e2fsck counts as success (1 = corrected, the normal outcome when counts in the backup descriptors are stale by design)']
    tool.replay_tier(ctx, body, envinit)
    n = int((100 if ctx.tier == 'quick' else 1500) * ctx.scale)
    hyp.run_property(ctx, strategy, body, envinit, n)

def replay_file(ctx, path): return tool.replay_file(ctx, path, body, envinit)

MANIFEST = dict(
    engine='hypothesis',
    technique='property-based testing with Hypothesis over geometry x producer history x backup location; oracles: independent backup-group rule, restore via e2fsck -b after destroying the primary, e2fsck -fn, independent checker, before/after tree digest',
    level_text='Generated-input exploration: geometries around the powers of 3/5/7 with sparse_super, sparse_super2, meta_bg, flex_bg, 32/64-bit and bigalloc layouts after mke2fs, resize2fs, tune2fs and repairing e2fsck; every prescribed backup location that is tried must restore all files.',
    level_note='Trusted: vlib/e4ref.py (has_super rule, descriptor locations, digest, checker).')
