"""C04 — journal recovery can be interrupted anywhere and re-run (crash-point enumeration over the traced write/fsync sequence of recovery)."""
import os, json, shutil, struct, random
from hypothesis import strategies as st
from vlib import hyp, fsgen, core, tool, run as vrun, e4ref, jbd2
from checks import c03
LEVEL = 'fault_enumeration'
FRONTENDS = c03.FRONTENDS
RULE = ('Hypothesis draws a journal (C03 generator, internal journals and external journal devices, undamaged or with one logged block whose checksum is broken: 1-5 transactions, all tag/checksum formats, wrap, revokes, escapes) and a front-end out of %s. Recovery runs once under the syscall interposer, giving the ordered sequence of device writes and fsyncs and the '
        'uninterrupted result R. Every program-order prefix of the writes is a crash point (enumerated exhaustively per journal); in addition, for sampled crash points, a drawn subset of the writes issued after the last completed fsync is dropped (lost / reordered unflushed writes; '
        'all subsets when at most 4 are pending). Each crashed image is recovered again with the same front-end and must end with exactly R on all pool blocks, an empty journal and needs_recovery clear. On every trace: the journal-superblock write with s_start=0 comes after an fsync that '
        'follows the last replayed-block write, and the filesystem superblock loses needs_recovery only after that. non-trivial = crash point inside the replay writes or between replay and journal reset; distinct by (journal, front-end, crash point, mask)') % FRONTENDS

def strategy(env):
    pidx = c03.pidx
    tr = st.fixed_dictionaries(dict(blocks=st.lists(st.tuples(pidx, st.integers(0, 9).map(lambda x: x == 0)), min_size=1, max_size=14), rev_before=st.lists(pidx, max_size=3), rev_after=st.lists(pidx, max_size=3),
                                    split=st.sampled_from([0, 0, 3]), same_uuid=st.booleans()))
    return st.fixed_dictionaries(dict(fs=st.integers(0, len(c03.FSCFG) - 1), fmt64=st.booleans(), csum=st.sampled_from([0, 1, 2, 3]), **{'async': st.booleans()}, seq0=st.sampled_from([1, 77, 0xfffffffd]), start_mode=st.integers(0, 1), start=st.integers(0, 5000),
                                      seed=st.integers(0, 1 << 20), trans=st.lists(tr, min_size=1, max_size=5), fe=st.integers(0, len(FRONTENDS) - 1), mask_seed=st.integers(0, 1 << 20), dmg=st.sampled_from([0, 0, 0, 1]), dmg_at=st.integers(0, 4), tail=st.sampled_from([0, 0, 1, 4, 5, 7]), nr_clear=st.sampled_from([0, 0, 0, 1])))

def envinit(widx):
    env = hyp.img_env(widx, variants=('asan',)); env['base'] = {}
    return env

def recover(t, fe, img, env=None, jdev=None):
    if fe == 'debugfs jr': return vrun.run([t.debugfs, '-w', '-R', 'jr', img], env=env, merge=True, cpu=120)
    return vrun.run([t.e2fsck] + fe.split()[1:] + (['-j', jdev] if jdev else []) + [img], env=env, merge=True, cpu=120)

def body(case, env):
    fp = core.stable_hash(case); cfg = c03.FSCFG[case['fs']]; fe = FRONTENDS[case['fe'] % (2 if cfg.get('extjournal') else len(FRONTENDS))]; classes = ['fs:' + cfg['name'], 'frontend:' + fe]
    b = c03.base_image(env, case['fs'])
    if b is None: return (None, fp, False, None, classes + ['skip:base'])
    jbase = env.get('base_j', {}).get(case['fs'])
    base, pool = b; bs = cfg['bs']; d = env['dir']; tp = env['plain']; ta = env['asan']
    # one case in four carries a logged data block with a broken checksum (v2/v3 journals): jbd2 skips that block, reports the error and resets the journal - the ordering
    # of fsync / journal reset must hold on that path too
    spec = dict(c03.with_tail(case), damage=(jbd2.DAMAGE.index('data-csum') if case.get('dmg') else 0), damage_at=case.get('dmg_at', 0))
    img = os.path.join(d, 'c04.img'); shutil.copyfile(base, img); jimg = None
    if jbase: jimg = os.path.join(d, 'c04.jnl'); shutil.copyfile(jbase, jimg); classes.append('external-journal')
    try: expected, touched, candidates, poisoned, info = jbd2.write_journal(img, spec, pool, ext=jimg)
    except ValueError as e: return (None, fp, False, None, classes + ['skip:writer'])
    nr_clear = bool(case.get('nr_clear')) and not jimg
    if nr_clear:
        # the filesystem superblock does NOT ask for recovery although the journal holds transactions (what `e2fsck -b <backup>` meets): e2fsck -y runs the journal anyway, and has to make
        # the request for recovery durable before it starts overwriting blocks
        with open(img, 'r+b') as f:
            f.seek(1024); sb = bytearray(f.read(1024)); struct.pack_into('<I', sb, 0x60, struct.unpack_from('<I', sb, 0x60)[0] & ~4)
            if struct.unpack_from('<I', sb, 0x64)[0] & 0x400: struct.pack_into('<I', sb, 0x3fc, e4ref.crc32c(0xffffffff, bytes(sb[:0x3fc])))
            f.seek(1024); f.write(sb)
        classes.append('needs_recovery-flag-clear-at-start')
    # the journal superblock lives on device JD (0 = the filesystem image, 1 = the external journal device) at byte jsb_off
    if jimg: JD = 1; jsb_off = jbd2.ext_journal_sb_block(bs) * bs
    else: JD = 0; fs_, jmap = jbd2.journal_map(img); jsb_off = jmap[0] * bs
    poolset = set(pool)
    # ---- uninterrupted, traced run
    w = os.path.join(d, 'c04w.img'); shutil.copyfile(img, w); log = os.path.join(d, 'iot.log'); wj = None
    if jimg: wj = os.path.join(d, 'c04w.jnl'); shutil.copyfile(jimg, wj)
    if os.path.exists(log): os.unlink(log)
    r = recover(tp, fe, w, env=vrun.traced_env(log, 'c04w.img', match2='c04w.jnl' if jimg else None), jdev=wj)
    ok_rc = (0,) if fe == 'debugfs jr' else (0, 1)
    if spec['damage']: ok_rc = (0, 1, 4, 5) if fe != 'debugfs jr' else (0, 1)     # e2fsck reports the journal checksum error (uncorrected bit) on such journals
    obs = dict(fs=cfg['name'], frontend=fe, csum=case['csum'], fmt64=case['fmt64'], log=info['log'])
    if r.rc not in ok_rc: return (dict(obs, kind='recovery-failed', rc=r.rc, out=r.out[-300:]), fp, True, None, classes)
    with open(w, 'rb') as f: R = f.read()
    def blk(buf, n): return buf[n * bs:(n + 1) * bs]
    with open(base, 'rb') as f: orig = f.read()
    damaged = info['damage'] != 'none'
    if nr_clear and all(blk(R, n) == blk(orig, n) for n in touched):
        classes.append('frontend-declined-to-run-the-journal'); return (None, fp, False, None, classes)
    if case.get('tail'): classes.append('revoke-only-tail:%d' % case['tail'])
    if damaged: classes.append('journal-with-bad-data-checksum')
    for n in pool:
        if not damaged and blk(R, n) != expected.get(n, blk(orig, n)): return (dict(obs, kind='uninterrupted-recovery-differs-from-model', block=n), fp, True, None, classes)
    # trace records: (op 'W'/'S', offset, data, device)
    tr = [(('W' if op in 'WX' else 'S'), off, dat, (1 if op in 'XY' else 0)) for op, off, dat in vrun.parse_trace(log) if op in 'WSXY']
    writes = [i for i, x in enumerate(tr) if x[0] == 'W']
    # ---- trace invariants
    replayed = set(b_ for b_ in touched if blk(R, b_) != blk(orig, b_)) if damaged else set(expected)      # blocks the model says are written by the replay (a logged block that is revoked is not)
    late_replay = []; curs = [bytearray(open(img, 'rb').read()), bytearray(open(jimg, 'rb').read()) if jimg else None]; last_replay = -1; fsync_after_replay = -1; jreset = -1; nrclear = -1
    flag_seen = not nr_clear
    for i, (op, off, dat, dev) in enumerate(tr):
        if op == 'S':
            if dev == 0 and last_replay >= 0 and fsync_after_replay < last_replay: fsync_after_replay = i      # only an fsync of the filesystem device makes the replayed blocks durable
            continue
        cur = curs[dev]
        if off + len(dat) > len(cur): cur.extend(bytes(off + len(dat) - len(cur)))
        cur[off:off + len(dat)] = dat
        first = off // bs; nb = (len(dat) + bs - 1) // bs
        if dev == 0 and any((first + k) in replayed for k in range(nb)):
            if jreset < 0: last_replay = i
            else: late_replay.append(i)
        if jreset < 0 and struct.unpack_from('>I', curs[JD], jsb_off + 0x1c)[0] == 0: jreset = i
        nrflag = struct.unpack_from('<I', curs[0], 1024 + 0x60)[0] & 4
        if nrflag: flag_seen = True
        if nrclear < 0 and flag_seen and not nrflag: nrclear = i      # (with the flag clear at the start it first has to be set before it can be 'cleared')
    flag_set_by_tool = nr_clear and flag_seen      # the tool itself raised needs_recovery before replaying (e2fsck does, debugfs jr does not): from then on every crash state must carry it
    prob = []
    if late_replay: prob.append('replayed block(s) written (write #%s) only after the journal superblock was marked empty (write #%d)' % (late_replay[:3], jreset))
    elif replayed and last_replay < 0: prob.append('no write to any replayed block seen in the trace')
    if jreset >= 0 and last_replay >= 0 and not (last_replay < fsync_after_replay < jreset): prob.append('journal marked empty (write #%d) without an fsync after the last replayed-block write (#%d; first fsync after it: #%d)' % (jreset, last_replay, fsync_after_replay))
    if nrclear >= 0 and jreset >= 0 and nrclear < jreset and last_replay >= 0 and nrclear < last_replay: prob.append('needs_recovery cleared (write #%d) before the last replayed block was written (#%d)' % (nrclear, last_replay))
    if nrclear >= 0 and last_replay >= 0 and not any(tr[i][0] == 'S' and tr[i][3] == 0 for i in range(last_replay, nrclear)): prob.append('needs_recovery cleared (write #%d) with no fsync since the last replayed-block write (#%d)' % (nrclear, last_replay))
    if prob: return (dict(obs, kind='recovery-ordering', problems=prob, trace_len=len(tr)), fp, True, None, classes)
    # ---- crash states
    rnd = random.Random(case['mask_seed']); states = []
    for k in range(len(writes) + 1): states.append((k, ()))                      # every program-order prefix
    for _ in range(12):
        k = rnd.randrange(1, len(writes) + 1)
        upto = writes[k - 1] if k else -1
        lastS = {dv: max([i for i in range(upto + 1) if tr[i][0] == 'S' and tr[i][3] == dv] or [-1]) for dv in (0, 1)}     # durability is per device
        pending = [i for i in writes[:k] if i > lastS[tr[i][3]]]
        if not pending: continue
        if len(pending) <= 4:
            for m in range(1, 1 << len(pending)): states.append((k, tuple(p for j, p in enumerate(pending) if m >> j & 1)))
        else: states.append((k, tuple(sorted(rnd.sample(pending, rnd.randrange(1, len(pending)))))))
    states = sorted(set(states)); nontrivial_states = 0; torn = []
    window_lo = min([i for i in writes if tr[i][3] == 0 and any((tr[i][1] // bs + kk) in replayed for kk in range((len(tr[i][2]) + bs - 1) // bs))] or [0])
    cw = os.path.join(d, 'c04crash.img'); cwj = os.path.join(d, 'c04crash.jnl') if jimg else None
    for k, dropped in states:
        shutil.copyfile(img, cw)
        if jimg: shutil.copyfile(jimg, cwj)
        with open(cw, 'r+b') as f, open(cwj or cw, 'r+b') as fj:
            for i in writes[:k]:
                if i in dropped: continue
                ff = fj if tr[i][3] else f
                ff.seek(tr[i][1]); ff.write(tr[i][2])
        if nr_clear and flag_set_by_tool and k > 0 and any(tr[i][3] == 0 and (tr[i][1] // bs) in replayed for i in writes[:k] if i not in dropped):
            # a replayed block is on disk: the superblock of this crash state must ask for recovery
            with open(cw, 'rb') as f:
                f.seek(1024 + 0x60); flag = struct.unpack('<I', f.read(4))[0] & 4
                f.seek(jsb_off + 0x1c); pending = struct.unpack('>I', f.read(4))[0] != 0      # the journal of this crash state still holds the transactions
            if pending and not flag: return (dict(obs, kind='replayed-block-on-disk-but-no-recovery-requested', crash_after_write=k, of_writes=len(writes), dropped=list(dropped)), fp, True, None, classes)
        r2 = recover(ta, fe, cw, jdev=cwj)
        inside = k > 0 and window_lo <= writes[k - 1] and (jreset < 0 or writes[k - 1] <= max(jreset, nrclear))
        if inside: nontrivial_states += 1; env.setdefault('nt', set())
        if r2.rc is None or r2.rc >= 90: return (dict(obs, kind='crash-or-sanitizer-on-rerun', crash_after_write=k, dropped=list(dropped), rc=r2.rc, sig=r2.sig, out=r2.out[-300:]), fp, True, None, classes)
        if r2.rc == 8 and 'alternate superblock' in r2.out and 'checksum does not match' in r2.out:
            # known finding F-C04-1 (torn primary superblock: fields and checksum are separate writes) - remember it, keep exploring the other crash states of this journal
            torn.append((k, list(dropped))); continue
        if r2.rc not in ok_rc: return (dict(obs, kind='rerun-failed', crash_after_write=k, dropped=list(dropped), rc=r2.rc, out=r2.out[-300:]), fp, True, None, classes)
        with open(cw, 'rb') as f: A = f.read()
        bad = [n for n in pool if blk(A, n) != blk(R, n)]
        if bad: return (dict(obs, kind='rerun-differs-from-uninterrupted', crash_after_write=k, of_writes=len(writes), dropped=list(dropped), blocks=bad[:6], crash_offset=tr[writes[k - 1]][1] if k else None), fp, True, None, classes)
        AJ = open(cwj, 'rb').read() if cwj else A
        if struct.unpack_from('>I', AJ, jsb_off + 0x1c)[0] != 0 or struct.unpack_from('<I', A, 1024 + 0x60)[0] & 4:
            return (dict(obs, kind='journal-not-empty-after-rerun', crash_after_write=k, dropped=list(dropped)), fp, True, None, classes)
    if torn:
        return (dict(obs, kind='rerun-refused-torn-superblock', crash_points=torn[:6], n=len(torn), of_states=len(states)), fp, True, None, classes)
    classes.extend(['crash-state-explored'] * len(states))      # counted once each: the histogram entry is the total number of crashed images recovered
    classes.append('crash-states:%d' % (10 * (len(states) // 10))); classes.append('writes:%d' % (10 * (len(writes) // 10)))
    # each crash state is an evaluation of its own: account for them through the extra counters
    env['extra_evals'] = env.get('extra_evals', 0) + len(states)
    return (None, fp, nontrivial_states > 0, dict(obs, writes=len(writes), fsyncs=sum(1 for x in tr if x[0] == 'S'), crash_states=len(states), inside_window=nontrivial_states, journal_reset_at=jreset, needs_recovery_cleared_at=nrclear, last_replay_write=last_replay), classes + ['states-inside-window:%d' % min(nontrivial_states, 50)])

def run(ctx):
    ctx.rule = RULE
    ctx.assumptions = ['the devices (filesystem image and, where configured, the external journal device) are modelled at system-call level: a write is durable once an fsync on its own device returned after it; unflushed writes may be dropped individually (lost or reordered)',
                       'prefix crash points are exhaustive per journal; subsets of unflushed writes are sampled (exhaustive when at most 4 writes are pending)', 'evaluations counts journals; each journal contributes the number of crash states shown in its sample']
    tool.replay_tier(ctx, body, envinit)
    n = int((16 if ctx.tier == 'quick' else 250) * ctx.scale)
    hyp.run_property(ctx, strategy, body, envinit, max(n, 2))

def replay_file(ctx, path): return tool.replay_file(ctx, path, body, envinit)

MANIFEST = dict(
    engine='hypothesis',
    technique='fault enumeration on top of property-based generation: journals from an independent JBD2 writer (Hypothesis); every prefix of the traced device-write sequence of recovery and sampled subsets of unflushed writes become crashed images that are recovered again and compared with the uninterrupted result; trace-order invariants on fsync / journal reset / needs_recovery',
    level_text='Fault enumeration: per generated journal every write-prefix crash point (30-150) and sampled lost-write subsets are replayed through the real recovery code; plus ordering invariants of the durable journal reset.',
    level_note='Trusted: native/iotrace.c (syscall-level write/fsync trace of the gcc build), vlib/jbd2.py, the fsync-based durability model.')
