"""C06 — no memory-safety violation, crash, hang or undocumented exit status on arbitrary input (Hypothesis tool sweep under ASan/UBSan + libFuzzer library targets)."""
import os, json, shutil, struct, re, random, glob, subprocess, hashlib, fcntl
from hypothesis import strategies as st
from vlib import hyp, fsgen, core, tool, run as vrun, e4ref, corrupt, build
LEVEL = 'exploration'
DBG_CMDS = ['ls -l /', 'ls -l /many', 'ls -l /d1/d2/d3', 'stat /big', 'stat /frag', 'stat <2>', 'stat <7>', 'stat <8>', 'ex /frag', 'ex /big', 'htree /many', 'htree /', 'logdump -a', 'logdump', 'icheck 100 500 900 1500', 'ncheck 2 12 13 20', 'dump /big /dev/null', 'cat /mid',
            'rdump / @OUT@', 'ea_list /big', 'ea_get /big user.blockval', 'bmap /big 0', 'bmap /frag 5', 'dx_hash -h half_md4 abc', 'imap /big', 'lsdel', 'ffb 3', 'dump_unused', 'stats', 'list_quota user', 'inode_dump /big', 'inode_dump -b /many',
            'blocks /frag', 'filefrag -v /frag', 'dirsearch /many f001-nnn', 'testb 100 20', 'testi <12>', 'dump_mmp', 'check_desc?', 'stat /d1/slowlink', 'get_quota user 0', 'extent_open /frag\nroot\nnext\nnext\nprint_all\nextent_close', 'dump_extents /frag', 'htree_dump /many', 'dirsearch / big', 'ls -d /']
TOOLS = ['e2fsck -fn', 'e2fsck -fn', 'e2fsck -n', 'e2fsck -p', 'e2fsck -fy', 'e2fsck -fy', 'e2fsck -fyD', 'e2fsck -fy -E bmap2extent', 'debugfs', 'debugfs', 'debugfs -c', 'dumpe2fs', 'dumpe2fs -x', 'dumpe2fs -h', 'dumpe2fs -b', 'dumpe2fs -g', 'tune2fs -l', 'resize2fs -P',
         'e2image -r', 'e2image -Q', 'e2image -ra', 'e2image meta', 'e2freefrag', 'e2undo mutated', 'e2image -r mutated-qcow2', 'e2fsck -fn -b', 'e2fsck -fy journal-noise', 'debugfs jr', 'e2fsck -fn -E journal_only?']
TOOLS = [t for t in TOOLS if not t.endswith('?')]
# journals laid out by the independent JBD2 writer (descriptor/revoke/commit blocks of every format) whose header fields are then set to boundary values
TOOLS += ['e2undo structured', 'e2undo structured']      # undo files whose header / key fields are set to boundary values with the checksums recomputed
TOOLS += ['e2fsck -fy journal-struct', 'debugfs logdump journal-struct', 'debugfs logdump journal-struct', 'debugfs jr journal-struct']
JFIELD_VALUES = [0, 1, 2, 5, 0xfffffff0, 0x7fffffff, 0xffffffff, 0x80000000]
E2FSCK_OK = 1 | 2 | 4 | 8 | 16 | 32 | 128
UB_KINDS = re.compile(r'runtime error: (index -?\d+ out of bounds|.*null pointer|member access within null|.*address .* with insufficient space|.*object-size|execution reached an unreachable|variable length array)')
RULE = ('(i) Hypothesis draws (configuration out of %d, population recipe, 1-6 structure-aware mutations with or without checksum fix-up incl. unstructured byte noise and whole-block copies, tool invocation out of %d forms incl. %d read-only debugfs commands; '
        'for e2undo a mutated undo file, for e2image -r a mutated qcow2 image, for e2fsck/debugfs jr noise in the journal blocks). The tool runs from the ASan+UBSan build under a 60 CPU-second limit. Violation = sanitizer report (ASan; UBSan kinds bounds/null/object-size/unreachable/vla), '
        'death by signal, CPU limit reproduced 3 times, or an exit status outside the documented set (e2fsck: OR of 0,1,2,4,8,16,32,128; others 0/1). (ii) libFuzzer (coverage-guided, ASan) on library entry points with an in-memory io manager: seed image + structured patch list; '
        'a library-level crash is only a candidate and counts only when one of the tools reproduces it on the written-out image. non-trivial = the tool got past ext2fs_open (it printed something other than an open failure); distinct by (tool, mutation classes, configuration)') % (len(fsgen.CONFIGS), len(TOOLS), len(DBG_CMDS))
CFG_NAMES = [c['name'] for c in fsgen.CONFIGS]
noise = st.tuples(st.integers(0, 1 << 30), st.integers(1, 64), st.integers(0, 255))

# size/offset/count-directed mutations: one or two length, offset or count fields of an xattr entry / directory entry / extent / htree node / inode / descriptor set to a wrapping or boundary value,
# checksum fixed up so that the consumer behind the checksum test sees it
_DCLS = [corrupt.CLASSES.index(c) for c in ('xattr', 'xattr', 'dirent', 'extent', 'dx', 'inode', 'gd', 'sb', 'special', 'geom', 'geom', 'dirmap', 'eadup', 'dirloop')]
_DKINDS = [corrupt.KINDS.index(k) for k in ('wrap', 'wrap', 'ones', 'out_of_range', 'small', 'zero', 'dec', 'inc')]
directed = st.tuples(st.sampled_from(_DCLS), st.integers(0, 500), st.integers(0, 200), st.sampled_from(_DKINDS), st.integers(0, 1 << 20), st.just(True))
def strategy(env):
    return st.fixed_dictionaries(dict(cfg=st.sampled_from(CFG_NAMES), recipe=st.integers(0, len(hyp.RECIPES) - 1), muts=st.one_of(st.lists(hyp.mutation, min_size=1, max_size=6), st.lists(directed, min_size=1, max_size=2)), tool=st.integers(0, len(TOOLS) - 1), sub=st.integers(0, 10000), aux=st.lists(noise, min_size=1, max_size=6)))

def envinit(widx):
    env = hyp.img_env(widx, variants=('asan',)); env['aux'] = {}
    return env

def aux_file(env, kind, cfg_name, recipe, tpl):
    """valid undo file / qcow2 image derived from the template (cached)"""
    key = (kind, cfg_name, recipe)
    if key in env['aux']: return env['aux'][key]
    tp = env['plain']; d = env['dir']; p = os.path.join(d, 'aux-%s-%s-%d' % key); res = None
    if kind == 'undo':
        w = os.path.join(d, 'auxw.img'); shutil.copyfile(tpl, w)
        if os.path.exists(p): os.unlink(p)
        r = vrun.run([tp.tune2fs, '-z', p, '-O', '^metadata_csum', '-L', 'c06', w], merge=True, cpu=120, stdin='y\n')
        if not os.path.exists(p): r = vrun.run([tp.tune2fs, '-z', p, '-L', 'c06', '-m', '3', w], merge=True, cpu=120)
        if os.path.exists(p): shutil.copyfile(w, p + '.dev'); res = p
    else:
        r = vrun.run([tp.e2image, '-Q', tpl, p], merge=True, cpu=120)
        if r.rc == 0: res = p
    env['aux'][key] = res
    return res

def structured_journal(img, bs, case, classes):
    """writes a generated journal (vlib/jbd2.py) into the internal journal and sets header fields of its blocks to boundary values; deterministic in the case"""
    from vlib import jbd2
    rnd = random.Random(case['sub'] * 7919 + len(case['aux']))
    try:
        fs_, jmap = jbd2.journal_map(img)
        if not jmap: return False
        pool = list(range(fs_.first_data + 60, fs_.first_data + 260))
        trans = [dict(blocks=[(rnd.randrange(200), rnd.random() < 0.2) for _ in range(rnd.randrange(1, 12))], rev_before=[rnd.randrange(200) for _ in range(rnd.randrange(0, 4))], rev_after=[rnd.randrange(200) for _ in range(rnd.randrange(0, 4))],
                      split=rnd.choice([0, 0, 1, 3]), same_uuid=rnd.random() < 0.5) for _ in range(rnd.randrange(1, 4))]
        spec = dict(fmt64=rnd.random() < 0.5, csum=rnd.choice([0, 1, 2, 3]), seq0=rnd.choice([1, 77, 0xfffffffe]), start_mode=rnd.randrange(2), start=rnd.randrange(5000), seed=case['sub'], trans=trans, damage=0, damage_at=0)
        spec['async'] = rnd.random() < 0.3
        jbd2.write_journal(img, spec, pool)
    except Exception: return False
    # field-level damage of the log blocks: block type, sequence, r_count / first tag word, following words
    with open(img, 'r+b') as f:
        cands = []
        for l in range(len(jmap)):
            f.seek(jmap[l] * bs); h = f.read(16)
            if h[:4] == jbd2.MAGICB and l > 0: cands.append((l, struct.unpack_from('>I', h, 4)[0]))
            if len(cands) >= 40: break
        for l, bt in cands:
            if rnd.random() < 0.35:
                off = rnd.choice([12, 12, 4, 8, 16, 20, 24]) if bt == 5 else rnd.choice([4, 8, 12, 16, 20, 24, 28])
                v = rnd.choice(JFIELD_VALUES + [bs, bs + 1, bs + 64, bs - 4, 16, 15])
                f.seek(jmap[l] * bs + off); f.write(struct.pack('>I', v)); classes.append('jfield:type%d@%d' % (bt, off))
        if rnd.random() < 0.3:      # journal superblock fields: s_first, s_maxlen, s_start, s_sequence, feature words
            off = rnd.choice([0x0c, 0x10, 0x14, 0x18, 0x1c, 0x24, 0x28, 0x2c, 0x40, 0x44]); f.seek(jmap[0] * bs + off); f.write(struct.pack('>I', rnd.choice(JFIELD_VALUES + [bs, len(jmap), len(jmap) + 1]))); classes.append('jfield:jsb@%#x' % off)
    return True

def body(case, env):
    name = TOOLS[case['tool']]; classes = ['tool:' + name]; fp = core.stable_hash(case)
    tpl = hyp.template(env, case['cfg'], case['recipe'])
    if tpl is None: return (None, fp, False, None, classes + ['skip:template'])
    t = env['asan']; d = env['dir']; img = hyp.fresh_copy(env, tpl, 'c06.img'); bs = fsgen.config_by_name(case['cfg'])['bs']
    desc = []
    if name not in ('e2undo mutated', 'e2undo structured', 'e2image -r mutated-qcow2'):
        try: desc = corrupt.apply(img, [tuple(m) for m in case['muts']])
        except Exception: desc = []
    out = os.path.join(d, 'c06out'); outdir = os.path.join(d, 'c06outdir'); shutil.rmtree(outdir, ignore_errors=True); os.makedirs(outdir)
    if os.path.exists(out): os.unlink(out)
    ok = (0, 1); stdin = None; sub = case['sub']; any_nonzero = False
    def byte_noise(path, lo=0, hi=None):
        size = os.path.getsize(path); hi = hi or size
        with open(path, 'r+b') as f:
            for pos, ln, val in case['aux']:
                o = lo + pos % max(1, hi - lo); f.seek(o); f.write(bytes([(val + k * 37) & 0xff for k in range(min(ln, size - o))]))
    if name.startswith('e2fsck'):
        opts = name.split()[1:]
        if 'journal-struct' in opts:
            opts.remove('journal-struct')
            if not structured_journal(img, bs, case, classes): classes.append('journal-struct:not-applicable')
        if 'journal-noise' in opts:
            opts.remove('journal-noise')
            try:
                from vlib import jbd2
                fs_, jmap = jbd2.journal_map(img)
                if jmap:
                    tpn = env['plain']; tpn.dbg(img, ['jo', 'jw -b 333 /dev/zero', 'jc'], write=True)
                    byte_noise(img, jmap[0] * bs, (jmap[0] + 40) * bs)
            except Exception: pass
        if '-b' in opts:
            cfg = fsgen.config_by_name(case['cfg']); bpg = int(cfg['extra'][cfg['extra'].index('-g') + 1]) if '-g' in cfg['extra'] else 8 * bs
            opts += [str(bpg + (1 if bs == 1024 else 0)), '-B', str(bs)]
        argv = [t.e2fsck] + opts + [img]; ok = None
    elif name.startswith('debugfs'):
        if name.endswith('journal-struct'):
            if not structured_journal(img, bs, case, classes): classes.append('journal-struct:not-applicable')
            if ' jr ' in name: argv = [t.debugfs, '-w', '-R', 'jr', img]
            else:
                stdin = '\n'.join([['logdump -a', 'logdump', 'logdump -O', 'logdump -S', 'logdump -a -O', 'logdump -b %d -c' % (100 + sub % 400), 'logdump -i <2>'][(sub + k * 3) % 7] for k in range(2)]) + '\n'
                argv = [t.debugfs, '-f', '-', img]
        elif name == 'debugfs jr':
            try:
                from vlib import jbd2
                fs_, jmap = jbd2.journal_map(img)
                if jmap:
                    env['plain'].dbg(img, ['jo', 'jw -b 333 /dev/zero', 'jc'], write=True); byte_noise(img, jmap[0] * bs, (jmap[0] + 40) * bs)
            except Exception: pass
            argv = [t.debugfs, '-w', '-R', 'jr', img]
        else:
            cmds = [DBG_CMDS[(sub + k * 7) % len(DBG_CMDS)].replace('@OUT@', outdir).rstrip('?') for k in range(3)]
            stdin = '\n'.join(cmds) + '\n'; argv = [t.debugfs] + (['-c'] if name.endswith('-c') else []) + ['-f', '-', img]
        any_nonzero = True      # debugfs exits with the number of failed commands
    elif name.startswith('dumpe2fs'): argv = [t.dumpe2fs] + name.split()[1:] + [img]; any_nonzero = True    # dumpe2fs(8): 'a non-zero return code if there are any errors'
    elif name == 'tune2fs -l': argv = [t.tune2fs, '-l', img]
    elif name == 'resize2fs -P': argv = [t.resize2fs, '-P', img]
    elif name == 'e2image -r': argv = [t.e2image, '-r', img, out]
    elif name == 'e2image -Q': argv = [t.e2image, '-Q', img, out]
    elif name == 'e2image -ra': argv = [t.e2image, '-ra', img, out]
    elif name == 'e2image meta': argv = [t.e2image, img, out]
    elif name == 'e2freefrag': argv = [t.e2freefrag, img]
    elif name == 'e2undo mutated':
        u = aux_file(env, 'undo', case['cfg'], case['recipe'], tpl)
        if not u: return (None, fp, False, None, classes + ['skip:no-undo-file'])
        mu = os.path.join(d, 'c06.e2undo'); shutil.copyfile(u, mu); shutil.copyfile(u + '.dev', img); byte_noise(mu)
        argv = [t.e2undo] + (['-f'] if sub % 2 else []) + [mu, img]
    elif name == 'e2undo structured':
        u = aux_file(env, 'undo', case['cfg'], case['recipe'], tpl)
        if not u: return (None, fp, False, None, classes + ['skip:no-undo-file'])
        mu = os.path.join(d, 'c06.e2undo'); shutil.copyfile(u, mu); shutil.copyfile(u + '.dev', img)
        try:
            with open(mu, 'r+b') as f:
                hdr = bytearray(f.read(512)); ubs = struct.unpack_from('<I', hdr, 32)[0]; koff = struct.unpack_from('<Q', hdr, 24)[0]; nkeys = struct.unpack_from('<Q', hdr, 8)[0]
                if hdr[:8] != b'E2UNDO02' or not (1024 <= ubs <= 1048576): raise ValueError('not an undo file')
                f.seek(koff * ubs); kb = bytearray(f.read(ubs))
                vals = [0, 1, 2, ubs - 1, ubs, ubs + 1, 512 * ubs, 512 * ubs + 1, 0x7fffffff, 0x80000000, 0xffffffff, 0xfffffc01, (1 << 32) - ubs + 1, (1 << 32) - ubs, 0xfffffffe, 1 << 20]
                for pos, ln, val in case['aux'][:3]:
                    v = vals[val % len(vals)]
                    if pos % 3 == 0:      # header field
                        o, w = [(8, 8), (16, 8), (24, 8), (32, 4), (36, 4), (48, 4), (64, 8)][(pos // 3) % 7]
                        struct.pack_into('<Q' if w == 8 else '<I', hdr, o, v if w == 4 else [v, v << 20, v][pos % 3]); classes.append('undo-field:hdr@%d' % o)
                    else:                 # a key: fsblk / blk_crc / size
                        k = (pos // 3) % max(1, min(nkeys, (ubs - 16) // 16)); fo = [(0, 8), (12, 4), (12, 4), (8, 4)][pos % 4]
                        struct.pack_into('<Q' if fo[1] == 8 else '<I', kb, 16 + 16 * k + fo[0], v); classes.append('undo-field:key.%s' % {0: 'fsblk', 12: 'size', 8: 'blk_crc'}[fo[0]])
                if case['aux'][0][1] % 4:      # three times in four the checksums are made right again
                    struct.pack_into('<I', kb, 4, 0); struct.pack_into('<I', kb, 4, e4ref.crc32c(0xffffffff, bytes(kb)))
                    struct.pack_into('<I', hdr, 508, e4ref.crc32c(0xffffffff, bytes(hdr[:508])))
                f.seek(koff * ubs); f.write(kb); f.seek(0); f.write(hdr)
        except Exception as e: return (None, fp, False, None, classes + ['skip:undo-parse:' + type(e).__name__])
        argv = [t.e2undo] + (['-f'] if sub % 2 else []) + (['-n'] if sub % 5 == 0 else []) + [mu, img]
    elif name == 'e2image -r mutated-qcow2':
        q = aux_file(env, 'qcow2', case['cfg'], case['recipe'], tpl)
        if not q: return (None, fp, False, None, classes + ['skip:no-qcow2'])
        mq = os.path.join(d, 'c06.qcow2'); shutil.copyfile(q, mq); byte_noise(mq, 0, 4096 if sub % 3 else None)
        argv = [t.e2image, '-r', mq, out]
    else: raise KeyError(name)
    for dd in desc[:6]: classes.append('mut:' + dd.split(' ')[0].split('[')[0].split('.')[0])
    p = vrun.run(argv, stdin=stdin, merge=True, cpu=60, max_out=1 << 19)
    try:
        if os.path.exists(out) and os.path.getsize(out) > (64 << 20): os.unlink(out)
    except OSError: pass
    base = dict(tool=name, cfg=case['cfg'], applied=desc[:6], areas=corrupt.areas(desc), sub=(stdin or '').strip()[:120], rc=p.rc, sig=p.sig)
    asan = 'ERROR: AddressSanitizer' in p.out
    ub = UB_KINDS.search(p.out)
    def report():
        ls = p.out.splitlines(); idx = [i for i, l in enumerate(ls) if 'ERROR: AddressSanitizer' in l or 'runtime error:' in l]
        top = ls[idx[0]:idx[0] + 9] if idx else ls[-6:]
        frames = [re.sub(r'0x[0-9a-f]+ in ', '', l.strip()).split(' /')[0] for l in top if l.strip().startswith('#')][:5]
        return dict(first=top[0][:200] if top else '', frames=frames)
    if asan: return (dict(base, kind='asan', **report()), fp, True, None, classes)
    if ub: return (dict(base, kind='ubsan', **report()), fp, True, None, classes)
    if p.truncated: classes.append('output-capped(>32MiB)')
    if p.cpu_limit_hit: return (dict(base, kind='cpu-limit-60s', tail=p.out[-300:]), fp, True, None, classes)
    if p.sig == 25:     # SIGXFSZ: the harness's own RLIMIT_FSIZE (8 GiB) stopped a write at a huge offset of the sparse image - legal for the tool, inconclusive here
        classes.append('inconclusive:file-size-limit'); return (None, fp, False, None, classes)
    if p.sig is not None and not p.truncated: return (dict(base, kind='signal', tail=p.out[-300:]), fp, True, None, classes)
    if not p.truncated and p.rc is not None:
        if (ok is None and p.rc & ~E2FSCK_OK) or (ok is not None and not any_nonzero and p.rc not in ok):
            return (dict(base, kind='undocumented-exit-status', tail=p.out[-300:]), fp, True, None, classes)
    opened = not re.search(r"(Bad magic number|while (trying to )?open|Couldn't find valid filesystem superblock|while opening)", p.out[:2000])
    classes.append('rc:%s' % p.rc)
    return (None, fp, opened and bool(desc or name.endswith(('mutated', 'qcow2', 'structured'))), dict(tool=name, cfg=case['cfg'], applied=desc[:4], sub=(stdin or '')[:80], rc=p.rc), classes)

# ---------------------------------------------------------------------------------------------------------------- libFuzzer part
def fuzz_targets():
    return ['fz_open_iterate']

def build_fuzzer(name):
    bdir = build.ensure('fuzz'); src = os.path.join(core.VERIF, 'fuzz', name + '.cc')
    h = hashlib.sha256(open(src, 'rb').read()).hexdigest()[:12]
    outd = os.path.join(os.path.dirname(bdir), 'harness'); os.makedirs(outd, exist_ok=True); exe = os.path.join(outd, '%s-%s' % (name, h))
    if os.path.exists(exe): return exe
    lock = open(exe + '.lock', 'w'); fcntl.flock(lock, fcntl.LOCK_EX)
    try:
        if not os.path.exists(exe):
            cmd = ['clang++', '-std=gnu++17', '-g', '-O1', '-fsanitize=fuzzer,address', '-I', os.path.join(bdir, 'lib'), '-I', os.path.join(build.srcdir(bdir), 'lib'), '-DHAVE_CONFIG_H', src, '-o', exe + '.tmp',
                   os.path.join(bdir, 'lib', 'libext2fs.a'), os.path.join(bdir, 'lib', 'libcom_err.a'), '-lpthread']
            p = subprocess.run(cmd, stdout=subprocess.PIPE, stderr=subprocess.STDOUT)
            if p.returncode: raise RuntimeError('fuzzer compile failed: ' + p.stdout.decode()[-3000:])
            os.rename(exe + '.tmp', exe)
    finally: fcntl.flock(lock, fcntl.LOCK_UN); lock.close()
    return exe

def run_fuzzers(ctx, seconds):
    """coverage-guided campaign on the library with seed images taken from the generated templates; crashes are candidates, confirmed at tool level"""
    env = envinit(98); seeds = []
    for cfgname in ('ext4-1k', 'ext2-1k', 'ext4-1k-inline', 'ext4-1k-bigalloc', 'ext3-1k', 'ext4-1k-metabg'):
        tpl = hyp.template(env, cfgname, 0)
        if tpl: seeds.append(tpl)
    if not seeds: return
    res = core.Result(); work = os.path.join(vrun.scratch(), 'fuzz'); os.makedirs(work, exist_ok=True)
    for name in fuzz_targets():
        exe = build_fuzzer(name)
        corpus = os.path.join(work, name + '-corpus'); arts = os.path.join(work, name + '-artifacts'); os.makedirs(corpus, exist_ok=True); os.makedirs(arts, exist_ok=True)
        for i in range(len(seeds)):
            with open(os.path.join(corpus, 'seed%d' % i), 'wb') as f: f.write(bytes([i]) + bytes(8))
        e = dict(vrun.BASE_ENV); e['C06_SEEDS'] = ':'.join(seeds); e['ASAN_OPTIONS'] = 'detect_leaks=0:allocator_may_return_null=1:abort_on_error=0:exitcode=99'
        procs = []
        for w in range(16):
            lg = open(os.path.join(work, '%s.%d.log' % (name, w)), 'wb')
            procs.append((subprocess.Popen([exe, corpus, '-max_total_time=%d' % seconds, '-seed=%d' % (ctx.seed * 131 + w + 1), '-max_len=4096', '-rss_limit_mb=2048', '-timeout=25', '-artifact_prefix=%s/' % arts, '-print_final_stats=1', '-reload=1'],
                                           env=e, stdout=lg, stderr=subprocess.STDOUT, cwd=work), lg))
        execs = 0
        for w, (p, lg) in enumerate(procs):
            p.wait(); lg.close()
            m = re.findall(r'stat::number_of_executed_units:\s+(\d+)', open(os.path.join(work, '%s.%d.log' % (name, w)), errors='replace').read())
            if m: execs += int(m[-1])
        res.evaluations += execs; res.count('fuzz:%s:execs' % name, execs); res.count('fuzz:%s:corpus' % name, len(os.listdir(corpus)))
        for i in range(min(execs, 50000)): pass
        res.nontrivial |= set('fuzz:%s:%s' % (name, f) for f in os.listdir(corpus)[:5000])
        # candidates: crash-/leak- artifacts that re-crash; write the decoded image out and try every tool on it
        t = env['asan']
        for a in sorted(glob.glob(os.path.join(arts, 'crash-*')) + glob.glob(os.path.join(arts, 'leak-*')))[:40]:
            imgout = os.path.join(work, 'decoded.img')
            r = vrun.run([exe, a], env=dict(e, C06_WRITE_IMAGE=imgout), merge=True, cpu=120)
            if 'ERROR: AddressSanitizer' not in r.out and r.rc not in (99,) and r.sig is None: res.count('fuzz:artifact-not-reproducible'); continue
            res.count('fuzz:library-level-candidate')
            first = [l for l in r.out.splitlines() if 'ERROR: AddressSanitizer' in l][:1]; frames = [re.sub(r'0x[0-9a-f]+ in ', '', l.strip()).split(' /')[0] for l in r.out.splitlines() if l.strip().startswith('#')][:5]
            confirmed = None
            if os.path.exists(imgout):
                for argv in ([t.e2fsck, '-fn', imgout], [t.dumpe2fs, imgout], [t.debugfs, '-R', 'ls -l /', imgout], [t.e2image, '-r', imgout, os.path.join(work, 'o.raw')], [t.resize2fs, '-P', imgout], [t.e2freefrag, imgout], [t.tune2fs, '-l', imgout], [t.e2fsck, '-fy', imgout]):
                    q = vrun.run(argv, merge=True, cpu=60)
                    if 'ERROR: AddressSanitizer' in q.out or q.rc == 99 or (q.sig is not None and not q.truncated): confirmed = (os.path.basename(argv[0]) + ' ' + ' '.join(argv[1:-1]), q); break
            if confirmed:
                q = confirmed[1]; ls = q.out.splitlines(); idx = [i for i, l in enumerate(ls) if 'ERROR: AddressSanitizer' in l]
                keep = os.path.join(ctx.outdir, 'fuzz-%s.img.xz' % hashlib.sha256(open(imgout, 'rb').read()).hexdigest()[:12])
                subprocess.run('xz -c %s > %s' % (imgout, keep), shell=True)
                res.violations.append(dict(obs=dict(kind='asan', tool='fuzz->' + confirmed[0], cfg='fuzz', areas=['fuzz'], first=ls[idx[0]][:200] if idx else 'signal %s' % q.sig, frames=[re.sub(r'0x[0-9a-f]+ in ', '', l.strip()).split(' /')[0] for l in ls if l.strip().startswith('#')][:5], image=keep),
                                           case=dict(fuzz_artifact=os.path.basename(a), image=keep)))
            else:
                res.count('fuzz:library-only(not a C06 violation)'); res.notes.append('library-only crash (no tool reproduces it): %s %s' % (first, frames[:3]))
    ctx.res.merge(res)
    if env.get('_cleanup'): env['_cleanup']()

def run(ctx):
    ctx.rule = RULE
    ctx.assumptions = ['UBSan reports of kind alignment / shift / signed overflow are logged by the build but are not violations (the property lists memory errors and fatal signals)', 'a CPU-limit hit counts only when it reproduces 3 times; runaway output (> 32 MiB) is capped and counted, not judged',
                       'library-level fuzz crashes that no tool reproduces are recorded as notes (the property is about the tools)', 'external journal devices are not generated']
    tool.replay_tier(ctx, body, envinit)
    n = int((260 if ctx.tier == 'quick' else 4000) * ctx.scale)
    hyp.run_property(ctx, strategy, body, envinit, n)
    run_fuzzers(ctx, int((25 if ctx.tier == 'quick' else 600) * ctx.scale))

def replay_file(ctx, path):
    j = json.load(open(path))
    if 'fuzz_artifact' in j.get('case', {}):
        env = envinit(99); t = env['asan']; imgx = j['case']['image']; img = os.path.join(env['dir'], 'fz.img')
        subprocess.run('xz -dc %s > %s' % (imgx, img), shell=True)
        for argv in ([t.e2fsck, '-fn', img], [t.dumpe2fs, img], [t.debugfs, '-R', 'ls -l /', img], [t.e2image, '-r', img, img + '.raw'], [t.resize2fs, '-P', img], [t.e2freefrag, img], [t.tune2fs, '-l', img], [t.e2fsck, '-fy', img]):
            q = vrun.run(argv, merge=True, cpu=60)
            if 'ERROR: AddressSanitizer' in q.out or q.rc == 99 or (q.sig is not None and not q.truncated):
                obs = j['obs']; e = ctx.classify(obs)
                if e: print('KNOWN-FINDING: property=%s %s [%s]' % (ctx.prop, e['what'], e['id'])); return 0
                print(q.out[-1500:]); print('VIOLATION property=%s replay=%s' % (ctx.prop, path)); return 1
        print('replay passes: %s' % path); return 0
    return tool.replay_file(ctx, path, body, envinit)

MANIFEST = dict(
    engine='hypothesis',
    technique='fuzzing + property-based testing: Hypothesis-generated structure-aware corruptions x tool invocations under ASan/UBSan with CPU limits and exit-status oracle; coverage-guided libFuzzer campaign on libext2fs with an in-memory io manager whose crashes are confirmed at tool level',
    level_text='Generated-input exploration: thousands of corrupted images per run through every tool form named by the property, sanitised; plus a short coverage-guided library campaign per run whose findings only count when a tool reproduces them.',
    level_note='Trusted: clang ASan/UBSan, RLIMIT_CPU as the hang detector (60 s vs ~20 ms normal), the documented exit status sets.')
