"""C08 — resize2fs preserves every file, leaves a consistent filesystem of the reported size, and keeps the 'has errors' flag on disk while it works."""
import os, json, shutil, struct, re, random
from hypothesis import strategies as st
from vlib import hyp, fsgen, core, tool, run as vrun, e4ref
LEVEL = 'exploration'
# geometries beyond the shared configurations: the backup layout variants resize2fs has special code for
EXTRA_CONFIGS = [
    dict(name='ext4-4k-sparse2-1backup', fstype='ext4', bs=4096, blocks=12288, features=['sparse_super2', '^resize_inode'], extra=['-g', '2048', '-N', '256', '-E', 'num_backup_sb=1']),
    dict(name='ext4-1k-sparse2-0backup', fstype='ext4', bs=1024, blocks=8193, features=['sparse_super2', '^resize_inode'], extra=['-g', '1024', '-E', 'num_backup_sb=0']),
    dict(name='ext4-1k-resize-rsv', fstype='ext4', bs=1024, blocks=8193, features=[], extra=['-g', '1024', '-E', 'resize=200000']),
    dict(name='ext4-1k-metabg-flex', fstype='ext4', bs=1024, blocks=12289, features=['meta_bg', '^resize_inode'], extra=['-g', '512', '-G', '4', '-N', '768']),
    dict(name='ext3-1k-smallgroups', fstype='ext3', bs=1024, blocks=8193, features=[], extra=['-g', '768', '-N', '512']),
    dict(name='ext4-1k-fewinodes-3groups', fstype='ext4', bs=1024, blocks=24577, features=[], extra=['-N', '240']),      # 80 inodes per group: the population fills whole groups, shrinking renumbers inodes
    # fewer groups than one meta group (32 at 1k blocks): growing creates the groups that hold the other descriptor copies of meta group 0
    dict(name='ext4-1k-metabg-20smallgroups', fstype='ext4', bs=1024, blocks=20481, features=['meta_bg', '^resize_inode'], extra=['-g', '1024', '-N', '640']),
    dict(name='ext2-1k-metabg-1group', fstype='ext2', bs=1024, blocks=1025, features=['meta_bg', '^resize_inode'], extra=['-g', '1024', '-N', '64']),
    dict(name='ext2-1k-fewinodes-4groups', fstype='ext2', bs=1024, blocks=32769, features=[], extra=['-N', '256']),
    dict(name='ext4-2k-bigalloc', fstype='ext4', bs=2048, blocks=16384, features=['bigalloc'], extra=['-C', '8192']),
]
ALLCFG = fsgen.CONFIGS + EXTRA_CONFIGS
CFG_NAMES = [c['name'] for c in ALLCFG]
def cfg_by_name(n):
    for c in ALLCFG:
        if c['name'] == n: return c
    raise KeyError(n)
RULE = ('Hypothesis draws (configuration out of %d incl. sparse_super2 with 0/1/2 backups, meta_bg, reserved-GDT, bigalloc; population recipe; 0-3 extra population ops; 1-3 resize requests: absolute size from the estimated minimum -k .. 4x the original, '
        'biased to group boundaries +-delta, or -M, -b, -s; flags -f / -p). Each successful run must report a size equal to the superblock block count, leave e2fsck -fn at 0, the independent checker clean and the tree digest unchanged; '
        'a run that exits non-zero must leave the image bytes unchanged (refusal) or, if it had started writing, leave the has-errors flag set; from the syscall trace: the first device-changing write to anything but superblock/descriptor locations is preceded by a '
        'flushed primary superblock carrying EXT2_ERROR_FS, and the flag is present in the reconstructed primary superblock at every write prefix until the final superblock write; for two sampled crash prefixes plain `e2fsck -n` (no -f) must start a full check. '
        'non-trivial = the group count changed or at least one file block was relocated; distinct by (configuration, population, request list)') % len(ALLCFG)

req = st.tuples(st.sampled_from(['abs', 'abs', 'abs', 'M', 'b', 's', 'min+']), st.integers(0, 400), st.integers(-4, 40), st.sampled_from(['', '', '-f', '-p', '-f -p']))
def strategy(env):
    # inode renumbering needs small inode tables spread over several groups: those configurations and the inode-filler population are drawn more often
    weighted = CFG_NAMES + ['ext4-1k-manygroups', 'ext4-1k-fewinodes-3groups', 'ext2-1k-fewinodes-4groups'] * 4 + ['ext4-1k-metabg-20smallgroups'] * 3
    return st.fixed_dictionaries(dict(cfg=st.sampled_from(weighted), recipe=st.integers(0, len(hyp.RECIPES) - 1), extras=st.lists(st.tuples(st.sampled_from(list(range(fsgen.NKINDS)) + [7, 7, 7]), st.integers(0, 2000), st.integers(0, 6000)), max_size=3),
                                      reqs=st.lists(req, min_size=1, max_size=3), san=st.booleans(), fill=st.integers(0, 3)))

def envinit(widx):
    env = hyp.img_env(widx, variants=('asan',)); env['dg'] = {}
    return env

def template(env, name, recipe):
    key = (name, recipe)
    if key in env['cache']: return env['cache'][key]
    cfg = cfg_by_name(name); img = os.path.join(env['dir'], 'tpl-%s-%d.img' % key)
    ok, log = fsgen.build_image(env['plain'], img, cfg, hyp.RECIPES[recipe], env['blobs'], random.Random(recipe * 31 + 7))
    env['cache'][key] = img if ok else None
    return env['cache'][key]

MSG_NOW = re.compile(r'is now (\d+) \((\d+)k\) blocks long')
MSG_ALREADY = re.compile(r'already (\d+) \((\d+)k\) blocks long')

def sb_state_trace(tr, img0, fs0):
    """walks the write trace; returns (problems, prefixes_inside_window) where a prefix is an index into tr"""
    bs = fs0.bs
    meta = set()
    for g in range(fs0.ngroups):
        for b in fs0.super_and_gdt(g): meta.add(b)
    for g in range(fs0.ngroups): meta.add(fs0.gd_block(g))
    meta.add(0); meta.add(1024 // bs)
    with open(img0, 'rb') as f: cur = bytearray(f.read())
    def sbstate(): return struct.unpack_from('<H', cur, 1024 + 0x3a)[0]
    writes = [(i, off, d) for i, (op, off, d) in enumerate(tr) if op == 'W']
    # the final rewrite of the primary superblock = the trailing run of writes that touch only bytes 1024..2047 (libext2fs writes the changed 16-bit words one by one)
    last_sb = -1
    for i, off, d in reversed(writes):
        if off >= 1024 and off + len(d) <= 2048: last_sb = i
        else: break
    fs_end = fs0.blocks * bs
    problems = []; window = []; started = False; flag_flushed = False; flag_written = False
    for i, (op, off, d) in enumerate(tr):
        if op == 'S':
            if flag_written: flag_flushed = True
            continue
        if op != 'W': continue
        if off + len(d) > len(cur): cur.extend(bytes(off + len(d) - len(cur)))
        changing = cur[off:off + len(d)] != d
        first_blk = off // bs; nblk = (len(d) + bs - 1) // bs
        outside = any((first_blk + k) not in meta for k in range(nblk))
        if off >= fs_end and len(d) <= 1: outside = False      # resize2fs main() extends an image file by writing its last byte: not inside the filesystem
        if changing and outside and not started:
            started = True
            if not (sbstate() & 2): problems.append('first modifying write (offset %d) happens while the on-disk primary superblock lacks the has-errors flag' % off)
            elif not flag_flushed: problems.append('first modifying write (offset %d) is issued before the flagged superblock was flushed (no fsync in between)' % off)
        cur[off:off + len(d)] = d
        if sbstate() & 2: flag_written = True
        if started and i < last_sb:
            window.append(i)
            if not (sbstate() & 2): problems.append('has-errors flag absent from the primary superblock after write #%d although the run has not finished' % i); break
    return problems, window, started

def body(case, env):
    fp = core.stable_hash(case); classes = ['cfg:' + case['cfg']]
    cfg = cfg_by_name(case['cfg']); bs = cfg['bs']; d = env['dir']
    tpl = template(env, case['cfg'], case['recipe'])
    if tpl is None: return (None, fp, False, None, classes + ['skip:template-build-failed'])
    img = hyp.fresh_copy(env, tpl, 'rs.img'); tp = env['plain']; ta = env['asan']
    if case['extras']:
        fsgen.extras_apply(tp, img, case['extras'], env['blobs'], bs, extent_fs=cfg['fstype'] == 'ext4')
        if 'quota' in cfg['features']: tp.fsck(img, '-fy')
    if case['fill']:
        # fill the filesystem so that shrinking has to move data out of the tail groups
        filler = fsgen._blob(env['blobs'], 'c08fill-%d' % case['fill'], case['fill'] * 900 * 1024, 55)
        tp.dbg(img, ['write %s filler' % filler], write=True, cpu=60)
        if 'quota' in cfg['features']: tp.fsck(img, '-fy')
    if tp.fsck(img, '-fn').rc != 0: return (None, fp, False, None, classes + ['skip:base-not-clean'])
    try: d0, err0 = tool.tree_digest(img)
    except Exception as e: return (None, fp, False, None, classes + ['skip:reader:' + type(e).__name__])
    if err0: return (None, fp, False, None, classes + ['skip:reader-findings-on-base'])
    nontrivial = False; done = []
    for kind, a, delta, flags in case['reqs']:
        sb0 = tool.sb_fields(img); nb0 = sb0['nblocks']; bpg = sb0['bpg']
        ng0 = (nb0 - sb0['first_data'] + bpg - 1) // bpg
        args = flags.split()
        if kind in ('M', 'b', 's'): args += ['-' + kind]; size = None
        else:
            if kind == 'min+':
                m = vrun.run([tp.resize2fs, '-P', img], merge=True).out.strip().split()
                try: mn = int(m[-1])
                except Exception: mn = nb0
                size = mn + delta
            else:
                g = 1 + a % (4 * ng0 + 2)
                size = g * bpg + sb0['first_data'] + delta * (1 if a % 3 else 17)
            size = max(64, min(size, (96 << 20) // bs))
        cmd = args + [img] + ([str(size)] if size is not None else [])
        before = img + '.before'; shutil.copyfile(img, before); len0 = os.path.getsize(img)
        traced = not case['san']
        log = os.path.join(d, 'iot.log')
        if os.path.exists(log): os.unlink(log)
        if traced: p = vrun.run([tp.resize2fs] + cmd, env=vrun.traced_env(log, 'rs.img'), merge=True, cpu=300)
        else: p = vrun.run([ta.resize2fs] + cmd, merge=True, cpu=300)
        step = ' '.join(args + ([str(size)] if size is not None else [])); done.append('%s -> rc %s' % (step, p.rc))
        base = dict(cfg=case['cfg'], steps=done, from_blocks=nb0, extras=case['extras'], out=p.out[-400:])
        classes.append('req:' + kind); classes.append('rc:%s' % (p.rc if p.rc is not None else 'sig%s' % p.sig))
        if p.rc is None or p.rc >= 90 or p.cpu_limit_hit:
            return (dict(base, kind='crash-or-sanitizer', sig=p.sig), fp, True, None, classes)
        tr = vrun.parse_trace(log) if traced else []
        if p.rc != 0:
            with open(before, 'rb') as f1, open(img, 'rb') as f2:
                same = f1.read() == f2.read(len0)
            if same: classes.append('refused'); continue
            classes.append('failed-midway')
            if os.environ.get('VERIF_C08_DEBUG'): print('MIDWAY', case['cfg'], done, p.out[-200:].replace('\n', ' | '))
            sb1 = tool.sb_fields(img)
            if not (sb1['state'] & 2):
                return (dict(base, kind='failed-run-left-no-error-flag'), fp, True, None, classes)
            return (None, fp, False, None, classes)     # a run that failed half-way is not a refusal; nothing more is claimed for it
        sb1 = tool.sb_fields(img); nb1 = sb1['nblocks']
        m = MSG_NOW.search(p.out) or MSG_ALREADY.search(p.out)
        if m and int(m.group(1)) != nb1:
            return (dict(base, kind='reported-size-differs', reported=int(m.group(1)), superblock=nb1), fp, True, None, classes)
        if size is not None and m and MSG_NOW.search(p.out) and nb1 > size:
            return (dict(base, kind='larger-than-requested', requested=size, superblock=nb1), fp, True, None, classes)
        q = ta.fsck(img, '-fn')
        if q.rc != 0: return (dict(base, kind='not-clean-after-resize', rc=q.rc, says=tool.fsck_lines(q.out, 8), to_blocks=nb1), fp, True, None, classes)
        stt, fnd = tool.ref_clean(img)
        if stt == 'broken': return (dict(base, kind='independent-checker-after-resize', findings=fnd, to_blocks=nb1), fp, True, None, classes)
        try: d1, err1 = tool.tree_digest(img)
        except Exception as e: return (dict(base, kind='tree-unreadable-after-resize', err=repr(e)[:200]), fp, True, None, classes)
        df = tool.digest_diff(d0, d1)
        if df or err1: return (dict(base, kind='files-changed', diffs=df, reader_errors=[repr(x) for x in err1[:3]], to_blocks=nb1), fp, True, None, classes)
        ng1 = (nb1 - sb1['first_data'] + sb1['bpg'] - 1) // sb1['bpg']
        if ng1 != ng0 or kind in ('b', 's') and MSG_NOW.search(p.out): nontrivial = True
        classes.append('groups:%s' % ('same' if ng1 == ng0 else 'more' if ng1 > ng0 else 'fewer'))
        if traced and tr:
            try: fs0 = e4ref.FS(before)
            except Exception: fs0 = None
            if fs0 is not None:
                problems, window, started = sb_state_trace(tr, before, fs0)
                if started: classes.append('trace:modifying-run'); nontrivial = nontrivial or len(window) > 3
                if problems: return (dict(base, kind='error-flag-protocol', problems=problems[:3], writes=sum(1 for x in tr if x[0] == 'W')), fp, True, None, classes)
                # crash prefixes: e2fsck without -f must not skip the check
                rnd = random.Random(len(tr))
                for k in (rnd.sample(window, 2) if len(window) > 2 else window):
                    cw = os.path.join(d, 'crash.img'); shutil.copyfile(before, cw)
                    with open(cw, 'r+b') as f:
                        for op, off, dat in tr[:k + 1]:
                            if op == 'W': f.seek(off); f.write(dat)
                    r = tp.fsck(cw, '-n')
                    classes.append('crash-prefix-checked')
                    if 'clean,' in r.out and 'Pass 1' not in r.out:
                        return (dict(base, kind='crash-state-looks-clean', prefix=k, fsck_says=r.out[-300:]), fp, True, None, classes)
    return (None, fp, nontrivial, dict(cfg=case['cfg'], extras=case['extras'], steps=done), classes)

def run(ctx):
    ctx.rule = RULE
    ctx.assumptions = ['writes are observed at system-call level (the page cache is the "device"); durability of the flagged superblock is judged by an fsync between it and the first modifying write',
                       'writes to superblock/descriptor locations (primary and backups) do not count as the first modification: the initial flush that sets the flag rewrites them',
                       'a run that fails after it started writing is not a refusal; only the presence of the has-errors flag is required of it']
    tool.replay_tier(ctx, body, envinit)
    n = int((200 if ctx.tier == 'quick' else 2000) * ctx.scale)
    hyp.run_property(ctx, strategy, body, envinit, n)

def replay_file(ctx, path): return tool.replay_file(ctx, path, body, envinit)

MANIFEST = dict(
    engine='hypothesis',
    technique='property-based testing with Hypothesis over (filesystem, population, resize request sequence); oracles: e2fsck -fn, independent checker, before/after tree digest, reported-vs-actual size, write-trace invariants on the has-errors flag and sampled crash prefixes',
    level_text='Generated-input exploration of resize2fs (grow, shrink, -M, -b/-s, boundary sizes) on populated filesystems of all layouts, with a tree digest by an independent reader and a syscall-level trace of the error-flag protocol.',
    level_note='Trusted: vlib/e4ref.py (digest, checker, metadata locations), native/iotrace.c. Crash prefixes are program-order prefixes of the write sequence (sampled, two per traced run).')
