"""C13 — read-only invocations never modify the device (Hypothesis; oracle = sha256 before/after + no write-class syscall in the LD_PRELOAD trace)."""
import os, json, shutil
from hypothesis import strategies as st
from vlib import hyp, corrupt, fsgen, core, tool, run as vrun, e4ref
LEVEL = 'exploration'
STATES = ['clean', 'needs_recovery', 'orphans', 'stale-quota', 'error-fs', 'primary-sb-destroyed', 'corrupted', 'corrupted+needs_recovery', 'mmp', 'not-valid']
DBG_RO = ['ls -l /', 'ls -l /many', 'stat /big', 'stat <8>', 'stats', 'ex /frag', 'htree /many', 'logdump', 'logdump -a', 'icheck 100 200 300', 'ncheck 12 13 14', 'dump /big /dev/null', 'cat /mid', 'ea_list /big', 'bmap /big 0',
          'dx_hash -h tea abc', 'imap /big', 'lsdel', 'ffb 3', 'ffi', 'testb 100 4', 'testi /big', 'dirsearch / big', 'dump_unused', 'supported_features', 'get_quota user 0', 'list_quota user', 'inode_dump /big', 'dump_mmp', 'blocks /big', 'filefrag -v /big', 'extent_open /frag', 'stat /d1/slowlink', 'rdump /d1 @OUT@', 'jo', 'journal_run']
# commands that would modify: without -w debugfs must refuse them
DBG_WR = ['rm /big', 'mkdir /newdir', 'write /etc/hostname /nf', 'unlink /mid', 'kill_file /big', 'sif /big size 1', 'ssv mnt_count 7', 'freeb 100', 'setb 100', 'seti <12>', 'freei <12>', 'clri /big', 'ln /big /big2', 'rmdir /d1',
          'punch /big 0 1', 'fallocate /big 0 10', 'symlink /s /t', 'mknod /p p', 'ea_set /big user.q v', 'ea_rm /big user.medium', 'set_bg 0 checksum calc', 'dirty', 'expand_dir /d1', 'jr', 'jo\njw -b 50 /dev/zero\njc', 'set_current_time 20200101', 'zap_block 50', 'copy_inode <12> <13>', 'set_mmp_value magic 1', 'htree_dump /many', 'init_filesys x 100']
TOOLS = ['e2fsck -n', 'e2fsck -fn', 'e2fsck -fn -b', 'e2fsck -n -E journal_only', 'debugfs-ro', 'debugfs-refuse', 'debugfs -c', 'dumpe2fs', 'dumpe2fs -h', 'dumpe2fs -x', 'dumpe2fs -b', 'dumpe2fs -g', 'tune2fs -l', 'resize2fs -P', 'e2image -r', 'e2image -Q', 'e2image -ra',
         'e2freefrag', 'e2undo -n', 'mke2fs -n', 'e2label', 'e2fsck -n -D', 'e2fsck -fn -z', 'e2image meta', 'filefrag-less e2fsck -nv', 'e2fsck -nf -E bmap2extent', 'e2fsck -fn -c?']
TOOLS = TOOLS[:-1]
# filesystems with an EXTERNAL journal device (second file): clean, with an error recorded in the journal superblock, or with committed transactions waiting
TOOLS += ['e2fsck -n ext-journal', 'e2fsck -fn ext-journal']
RULE = ('Hypothesis draws (configuration, recipe, image state out of %s, 0-3 structure-aware corruptions for the corrupted states, read-only invocation out of %d tool forms incl. %d debugfs read commands and %d modifying debugfs commands issued WITHOUT -w); '
        'oracle: sha256 of the target before == after, and the LD_PRELOAD syscall trace of the run shows no successful write/pwrite/ftruncate/fallocate on the target (fsync is not a modification; an attempt the kernel refuses on a read-only descriptor is counted, not judged); '
        'non-trivial = image state is not "clean"; distinct by (state, invocation, configuration)') % (STATES, len(TOOLS), len(DBG_RO), len(DBG_WR))
CFG_NAMES = [c['name'] for c in fsgen.CONFIGS]

def strategy(env):
    return st.fixed_dictionaries(dict(cfg=st.sampled_from(CFG_NAMES), recipe=st.integers(0, len(hyp.RECIPES) - 1), state=st.integers(0, len(STATES) - 1), muts=st.lists(hyp.mutation, min_size=1, max_size=3),
                                      tool=st.integers(0, len(TOOLS) - 1), sub=st.integers(0, 1000)))

def envinit(widx):
    env = hyp.img_env(widx, variants=()); env['st'] = {}
    return env

def make_state(env, case, cfg):
    """-> path of an image in the requested state (cached per (cfg, recipe, state) for the uncorrupted part), or None"""
    state = STATES[case['state']]; t = env['plain']
    key = (case['cfg'], case['recipe'], state.replace('corrupted+', '').replace('corrupted', 'clean'))
    if state == 'mmp': key = ('mmp', 0, 'mmp')
    if key not in env['st']:
        p = os.path.join(env['dir'], 'st-%s-%d-%s.img' % key); ok = True
        if state == 'mmp':
            ok, log = fsgen.build_image(t, p, fsgen.MMP_CONFIG, hyp.RECIPES[0], env['blobs'], __import__('random').Random(1))
        else:
            tpl = hyp.template(env, case['cfg'], case['recipe'])
            if tpl is None: ok = False
            else:
                shutil.copyfile(tpl, p); base = key[2]
                if base == 'needs_recovery':
                    if '^has_journal' in cfg['features'] or cfg['fstype'] == 'ext2': ok = False
                    else:
                        t.dbg(p, ['jo', 'jw -b 333,400 /dev/zero', 'jw -b 401 %s' % os.path.join(env['blobs'], 'small'), 'jc'], write=True)
                        ok = bool(tool.sb_fields(p)['incompat'] & 4)
                elif base == 'orphans':
                    try:
                        r = e4ref.Reader(p); d = r.digest(content=False); i1 = d[b'/small']['ino']; i2 = d[b'/empty']['ino']
                    except Exception: ok = False
                    else:
                        # two unlinked-but-allocated inodes chained through s_last_orphan / i_dtime (the on-disk orphan list)
                        t.dbg(p, ['sif /small links_count 0', 'sif /small dtime %d' % i2, 'sif /empty links_count 0', 'sif /empty dtime 0', 'unlink /small', 'unlink /empty', 'ssv last_orphan %d' % i1], write=True)
                        ok = tool.sb_fields(p)['last_orphan'] == i1
                elif base == 'stale-quota':
                    if 'quota' not in cfg['features']: ok = False
                    else: t.dbg(p, ['write %s qf1' % os.path.join(env['blobs'], 'big'), 'rm /mid'], write=True)
                elif base == 'error-fs': t.dbg(p, ['ssv state 2'], write=True)
                elif base == 'not-valid': t.dbg(p, ['ssv state 0'], write=True)
                elif base == 'primary-sb-destroyed':
                    with open(p, 'r+b') as f: f.seek(1024); f.write(bytes(1024))
        env['st'][key] = p if ok else None
    src = env['st'][key]
    if src is None: return None, []
    img = os.path.join(env['dir'], 'target.img'); shutil.copyfile(src, img); desc = []
    if state.startswith('corrupted'):
        try: desc = corrupt.apply(img, [tuple(m) for m in case['muts']])
        except Exception: return None, []
        if not desc: return None, []
    return img, desc

def invocation(env, case, img, cfg):
    """-> (argv, stdin or None, extra files to remove)"""
    t = env['plain']; name = TOOLS[case['tool']]; sub = case['sub']; d = env['dir']
    out = os.path.join(d, 'out.bin'); outdir = os.path.join(d, 'outdir')
    shutil.rmtree(outdir, ignore_errors=True); os.makedirs(outdir)
    if os.path.exists(out): os.unlink(out)
    if name.startswith('e2fsck'):
        opts = name.split()[1:]
        if '-b' in opts:
            bs = cfg['bs']; bpg = 8 * bs
            if '-g' in cfg['extra']: bpg = int(cfg['extra'][cfg['extra'].index('-g') + 1])
            opts = opts + [str(bpg + (1 if bs == 1024 else 0)), '-B', str(bs)]
        if '-z' in opts: opts = opts + [os.path.join(d, 'undo.e2undo')]
        return [t.e2fsck] + opts + [img], None
    if name == 'filefrag-less e2fsck -nv': return [t.e2fsck, '-nv', img], None
    if name == 'debugfs-ro':
        cmd = DBG_RO[sub % len(DBG_RO)].replace('@OUT@', outdir)
        return [t.debugfs, '-f', '-', img], cmd + '\n' + DBG_RO[(sub // 7) % len(DBG_RO)].replace('@OUT@', outdir) + '\n'
    if name == 'debugfs-refuse':
        return [t.debugfs, '-f', '-', img], DBG_WR[sub % len(DBG_WR)] + '\n'
    if name == 'debugfs -c': return [t.debugfs, '-c', '-R', DBG_RO[sub % len(DBG_RO)].replace('@OUT@', outdir), img], None
    if name.startswith('dumpe2fs'): return [t.dumpe2fs] + name.split()[1:] + [img], None
    if name == 'tune2fs -l': return [t.tune2fs, '-l', img], None
    if name == 'e2label':
        l = os.path.join(d, 'e2label')   # tune2fs behaves as e2label when invoked under that name (an install-time symlink)
        if not os.path.lexists(l): os.symlink(t.tune2fs, l)
        return [l, img], None
    if name == 'resize2fs -P': return [t.resize2fs, '-P', img], None
    if name == 'e2image -r': return [t.e2image, '-r', img, out], None
    if name == 'e2image -Q': return [t.e2image, '-Q', img, out], None
    if name == 'e2image -ra': return [t.e2image, '-ra', img, out], None
    if name == 'e2image meta': return [t.e2image, img, out], None
    if name == 'e2freefrag': return [t.e2freefrag] + (['-c', '16'] if sub % 2 else []) + [img], None
    if name == 'mke2fs -n':
        # dry run with every kind of option that makes a real run touch the device early: explicit discard, zeroing of inode tables / journal, a label, an undo file request, a root directory
        extra = [[], ['-E', 'discard'], ['-E', 'nodiscard'], ['-E', 'discard,lazy_itable_init=0,lazy_journal_init=0'], ['-L', 'dry'], ['-E', 'discard', '-q'], ['-O', 'quota', '-E', 'discard'], ['-j', '-E', 'discard']][(sub // 2) % 8]
        return [t.mke2fs, '-n', '-F'] + (['-t', 'ext4', '-b', '4096'] if sub % 2 else []) + extra + [img], None
    if name == 'e2undo -n':
        # an undo file recorded against this very image (on a scratch copy, then the copy's result is moved in place so the undo file matches the target)
        u = os.path.join(d, 'c13.e2undo')
        if os.path.exists(u): os.unlink(u)
        # half of the undo files come from a recording that did not finish (e2undo then wants to mark the fs as needing a check - which -n must not do either)
        r = vrun.run([t.tune2fs, '-z', u] + (['-O', '^metadata_csum'] if sub % 3 == 0 else ['-L', 'c13lbl', '-c', '9']) + [img], env=({'UNDO_IO_SIMULATE_UNFINISHED': '1'} if sub % 4 >= 2 else {}), merge=True)
        if r.rc != 0 or not os.path.exists(u): return None, None
        return [t.e2undo, '-n'] + (['-v'] if sub % 2 else []) + (['-f'] if sub % 5 == 0 else []) + [u, img], None
    raise KeyError(name)

def body_extjournal(case, env, name, classes, fp):
    from checks import c03
    from vlib import jbd2
    import shutil, struct
    idx = [i for i, c in enumerate(c03.FSCFG) if c.get('extjournal')][case['sub'] % 3]
    env.setdefault('base', {})
    b = c03.base_image(env, idx)
    jbase = env.get('base_j', {}).get(idx)
    if b is None or not jbase: return (None, fp, False, None, classes + ['skip:no-external-journal-base'])
    base, pool = b; bs = c03.FSCFG[idx]['bs']; d = env['dir']
    img = os.path.join(d, 'target.img'); jnl = os.path.join(d, 'target.jnl'); shutil.copyfile(base, img); shutil.copyfile(jbase, jnl)
    variant = (case['sub'] // 3) % 4; classes.append('extjournal:' + ['clean', 's_errno-set', 'transactions-waiting', 's_errno-set+has-errors-state'][variant])
    if variant in (1, 3):
        with open(jnl, 'r+b') as f:
            o = jbd2.ext_journal_sb_block(bs) * bs; f.seek(o); jsb = bytearray(f.read(1024)); struct.pack_into('>i', jsb, 0x20, -5 - case['sub'] % 7)
            if struct.unpack_from('>I', jsb, 0x28)[0] & 0x18: struct.pack_into('>I', jsb, 0xfc, 0); struct.pack_into('>I', jsb, 0xfc, e4ref.crc32c(0xffffffff, bytes(jsb[:1024])))
            f.seek(o); f.write(jsb)
    if variant == 2:
        spec = dict(fmt64=bool(case['sub'] & 1), csum=[0, 1, 2, 3][case['sub'] % 4], seq0=5, start_mode=0, start=case['sub'], seed=case['sub'], damage=0, damage_at=0,
                    trans=[dict(blocks=[(k, False) for k in range(1 + case['sub'] % 9)], rev_before=[], rev_after=[3], split=0, same_uuid=True)])
        spec['async'] = False
        try: jbd2.write_journal(img, spec, pool, ext=jnl)
        except Exception: return (None, fp, False, None, classes + ['skip:writer'])
    argv = [env['plain'].e2fsck] + name.split()[1:2] + ['-j', jnl, img]
    h0 = (vrun.sha256_file(img), vrun.sha256_file(jnl)); log = os.path.join(d, 'iot.log')
    if os.path.exists(log): os.unlink(log)
    p = vrun.run(argv, env=vrun.traced_env(log, 'target.img', match2='target.jnl'), merge=True, cpu=60)
    h1 = (vrun.sha256_file(img), vrun.sha256_file(jnl)); tr = vrun.parse_trace(log)
    wr = [(op, off, len(dd) if isinstance(dd, (bytes, bytearray)) else dd) for op, off, dd in tr if op in 'WTFEX']
    classes.append('rc:%s' % (p.rc if p.rc is not None else 'sig%s' % p.sig))
    if h0 != h1 or wr:
        return (dict(kind='modified' if h0 != h1 else 'write-syscall-without-change', state='external-journal', tool=name, sub=classes[-2], cfg=c03.FSCFG[idx]['name'], which=('journal device' if h0[1] != h1[1] else 'filesystem' if h0[0] != h1[0] else 'none'),
                     writes=wr[:6], rc=p.rc, out=p.out[-400:]), fp, True, None, classes)
    return (None, fp, variant != 0, dict(state='external-journal', invocation=' '.join(os.path.basename(a) for a in argv[:-1])[:120], variant=classes[-2], rc=p.rc, trace_ops=len(tr)), classes)

def body(case, env):
    state = STATES[case['state']]; name = TOOLS[case['tool']]
    classes = ['state:' + state, 'tool:' + name]; fp = core.stable_hash(case)
    if name.endswith('ext-journal'): return body_extjournal(case, env, name, ['tool:' + name], fp)
    cfg = fsgen.config_by_name(case['cfg'])
    img, desc = make_state(env, case, cfg)
    if img is None: return (None, fp, False, None, classes + ['skip:state-not-constructible'])
    argv, stdin = invocation(env, case, img, cfg if state != 'mmp' else fsgen.MMP_CONFIG)
    if argv is None: return (None, fp, False, None, classes + ['skip:invocation-not-constructible'])
    before = vrun.sha256_file(img); size0 = os.path.getsize(img)
    log = os.path.join(env['dir'], 'iot.log')
    if os.path.exists(log): os.unlink(log)
    p = vrun.run(argv, env=vrun.traced_env(log, 'target.img'), stdin=stdin, merge=True, cpu=60)
    after = vrun.sha256_file(img); size1 = os.path.getsize(img)
    tr = vrun.parse_trace(log)
    wr = [(op, off, len(d) if isinstance(d, (bytes, bytearray)) else d) for op, off, d in tr if op in 'WTFE']
    if any(op in 'wt' for op, off, d in tr): classes.append('refused-write-attempt:' + name)
    classes.append('rc:%s' % (p.rc if p.rc is not None else 'sig%s' % p.sig))
    sub = (stdin or ' '.join(argv[1:-1]))[:80]
    if before != after or size0 != size1 or wr:
        obs = dict(kind='modified' if before != after or size0 != size1 else 'write-syscall-without-change', state=state, tool=name, sub=sub.strip(), cfg=case['cfg'], applied=desc, writes=wr[:6], rc=p.rc, out=p.out[-400:])
        return (obs, fp, True, None, classes)
    if p.cpu_limit_hit: classes.append('cpu-limit')
    nontrivial = state != 'clean'
    return (None, fp, nontrivial, dict(state=state, invocation=' '.join(os.path.basename(a) for a in argv[:-1])[:120], stdin=(stdin or '')[:80], cfg=case['cfg'], applied=desc, rc=p.rc, trace_ops=len(tr)), classes)

def run(ctx):
    ctx.rule = RULE
    ctx.assumptions = ['the syscall trace covers open/write/pwrite/ftruncate/fallocate/fsync of the gcc-built tools (mmap is not used by e2fsprogs for device I/O); the sha256 comparison is independent of the trace',
                       'modifying debugfs commands are issued without -w and must be refused; whatever the tool prints or exits with is not judged here, only the target bytes']
    tool.replay_tier(ctx, body, envinit)
    n = int((150 if ctx.tier == 'quick' else 1500) * ctx.scale)
    hyp.run_property(ctx, strategy, body, envinit, n)

def replay_file(ctx, path): return tool.replay_file(ctx, path, body, envinit)

MANIFEST = dict(
    engine='hypothesis',
    technique='property-based testing with Hypothesis over (image state x corruption x read-only invocation); oracle = content hash before/after plus LD_PRELOAD write-syscall trace',
    level_text='Generated-input exploration: thousands of (image state, invocation) pairs per run across all tools the property names; each pair is judged by content hash and by the syscall trace of the real (gcc-built) tool.',
    level_note='Trusted: native/iotrace.c (LD_PRELOAD interposer on open/write/pwrite/ftruncate/fallocate), sha256. States are constructed with debugfs -w (journal writer, orphan chain, state flags) and the structure-aware corruptor.')
