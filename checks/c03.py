"""C03 — journal replay applies exactly the committed, unrevoked transactions (Hypothesis-generated journals vs an independent recovery model)."""
import os, json, shutil, struct, random
from hypothesis import strategies as st
from vlib import hyp, fsgen, core, tool, run as vrun, e4ref, jbd2
LEVEL = 'exploration'
FSCFG = [
    dict(name='ext4-1k-j1m', fstype='ext4', bs=1024, blocks=16385, features=[], extra=['-J', 'size=1']),
    dict(name='ext4-4k-j4m', fstype='ext4', bs=4096, blocks=6144, features=[], extra=['-J', 'size=4', '-g', '2048']),
    dict(name='ext3-1k', fstype='ext3', bs=1024, blocks=8193, features=[], extra=['-J', 'size=1']),
    dict(name='ext4-1k-nocsum-32bit', fstype='ext4', bs=1024, blocks=8193, features=['^metadata_csum', '^64bit'], extra=['-J', 'size=1']),
    dict(name='ext4-2k', fstype='ext4', bs=2048, blocks=6144, features=[], extra=['-J', 'size=2', '-g', '2048']),
    dict(name='ext4-4k-single-group', fstype='ext4', bs=4096, blocks=4096, features=[], extra=['-J', 'size=4']),
    # external journal devices (mke2fs -O journal_dev, attached with -J device=): only e2fsck -j can replay them (debugfs jr has no way to name the device)
    dict(name='ext4-1k-extjournal', fstype='ext4', bs=1024, blocks=8193, features=[], extra=[], extjournal=2048),
    dict(name='ext4-4k-extjournal', fstype='ext4', bs=4096, blocks=4096, features=[], extra=[], extjournal=1024),
    dict(name='ext3-1k-extjournal', fstype='ext3', bs=1024, blocks=8193, features=[], extra=[], extjournal=1500),
]
JUUID = '5a5a0000-1111-2222-3333-444455556666'
FRONTENDS = ['e2fsck -fy', 'e2fsck -fy -E journal_only', 'debugfs jr']
RULE = ('Hypothesis draws a journal: block size 1k/2k/4k, tag format 32/64-bit, checksums none/v1(crc32_be)/v2/v3, async_commit, SAME_UUID or per-tag UUID layouts, starting sequence incl. values next to 2^32, start position anywhere incl. 1-14 blocks before the wrap point, '
        '1-8 transactions of 1-40 tags over a pool of 200 target blocks (data blocks of a pre-created file and free blocks), several descriptor blocks per transaction, escaped blocks, revoke blocks before/after the descriptors, 0-7 trailing revoke-only transactions, repeated logging of one block, '
        'and a damage suffix out of %s applied to a drawn transaction. An independent writer lays it into the journal inode or, for the three external-journal configurations, into the journal device; the reference model (scan up to the first transaction that is uncommitted / wrongly sequenced / checksum-invalid; a block keeps the image of the last accepted '
        'transaction that logged it unless revoked by that or a later one) predicts every pool block. Checked on the results of `e2fsck -fy`, `e2fsck -fy -E journal_only` and `debugfs -w -R jr`: pool blocks equal the model, all other pool blocks untouched, journal superblock s_start == 0 and s_sequence beyond every replayed transaction, '
        'needs_recovery clear, and all front-ends byte-identical on the pool. For checksum damage inside a transaction (descriptor/data/revoke block) jbd2 reports an error; there the oracle is: no pool block may hold anything but its original or a logged image, and never the damaged image. '
        'non-trivial = at least one accepted transaction and one of {revoke hit, escape, wrap crossed, repeated block, damage}; distinct by journal structure') % sorted(set(jbd2.DAMAGE))

# pool indexes: half of the draws come from a 12-block corner of the pool so that the same block is logged / revoked / logged again across transactions
pidx = st.one_of(st.integers(0, 11), st.integers(0, 199))
tr = st.fixed_dictionaries(dict(blocks=st.lists(st.tuples(pidx, st.integers(0, 9).map(lambda x: x == 0)), min_size=1, max_size=40), rev_before=st.lists(pidx, max_size=4), rev_after=st.lists(pidx, max_size=4),
                                split=st.sampled_from([0, 0, 1, 3, 7]), same_uuid=st.booleans()))
def strategy(env):
    return st.fixed_dictionaries(dict(fs=st.integers(0, len(FSCFG) - 1), fmt64=st.booleans(), csum=st.sampled_from([0, 1, 2, 3, 3]), **{'async': st.booleans()}, seq0=st.sampled_from([1, 2, 77, 1000, 0x7fffffff, 0xfffffffd, 0xffffffff, 0xfffffff0]),
                                      start_mode=st.integers(0, 1), start=st.integers(0, 5000), seed=st.integers(0, 1 << 20), trans=st.lists(tr, min_size=1, max_size=8), damage=st.integers(0, len(jbd2.DAMAGE) - 1), damage_at=st.integers(0, 7), tail=st.sampled_from([0, 0, 0, 1, 2, 4, 5, 7])))

def envinit(widx):
    env = hyp.img_env(widx, variants=('asan',)); env['base'] = {}
    return env

def with_tail(case):
    """appends case['tail'] revoke-only transactions (a revoke block and a commit block each, no descriptor): a log that ends with blocks the replay pass reads but that cause no write"""
    n = case.get('tail', 0)
    if not n: return case
    extra = [dict(blocks=[], rev_before=[(case['seed'] + 3 * i) % 12, (case['seed'] + 3 * i + 1) % 200], rev_after=[], split=0, same_uuid=True) for i in range(n)]
    return dict(case, trans=list(case['trans']) + extra)

def base_image(env, idx):
    """fresh fs with a 160-block file whose data blocks + 40 free blocks form the pool; cached per configuration"""
    if idx in env['base']: return env['base'][idx]
    cfg = FSCFG[idx]; img = os.path.join(env['dir'], 'c03base-%d.img' % idx); tp = env['plain']; jdev = None
    if cfg.get('extjournal'):
        jdev = os.path.join(env['dir'], 'c03base-%d.jnl' % idx)
        with open(jdev, 'wb') as f: f.truncate(cfg['extjournal'] * cfg['bs'])
        pj = vrun.run([tp.mke2fs, '-q', '-F', '-O', 'journal_dev', '-b', str(cfg['bs']), '-U', JUUID, jdev, str(cfg['extjournal'])], merge=True)
        if pj.rc != 0: env['base'][idx] = None; return None
        cfg = dict(cfg, features=cfg['features'] + ['^has_journal'])
    p = fsgen.mk_config(tp, img, cfg)
    if jdev and p.rc == 0:
        # mke2fs/tune2fs insist on a block device for -J device=; attach the journal the way the suite's j_ext_* tests do
        tp.dbg(img, ['feature has_journal', 'ssv journal_dev 0x9999', 'ssv journal_uuid ' + JUUID], write=True)
    res = None
    if p.rc == 0:
        blob = os.path.join(env['blobs'], 'pool-%d' % cfg['bs'])
        with open(blob, 'wb') as f: f.write(bytes(range(256)) * (cfg['bs'] * 160 // 256))
        tp.dbg(img, ['write %s poolfile' % blob, 'mkdir d', 'write %s d/other' % blob], write=True)
        if (tp.fsck(img, '-fn') if not jdev else vrun.run([tp.e2fsck, '-fn', '-j', jdev, img], merge=True)).rc == 0:
            R = e4ref.Reader(img); dg = R.digest(content=False); I = R.fs.read_inode(dg[b'/poolfile']['ino'])
            data = [pb + k for lb, pb, ln, un in R.blockmap(I) for k in range(ln)]
            ck = e4ref.Checker(img); ck.run()
            free = [b for b in range(R.fs.blocks - 1, R.fs.first_data, -1) if b not in ck.fixed and b not in ck.owners][:40]
            if len(data) >= 160 and len(free) == 40: res = (img, data[:160] + free)
            env.setdefault('base_j', {})[idx] = jdev
    env['base'][idx] = res
    return res

def body(case, env):
    fp = core.stable_hash(case); cfg = FSCFG[case['fs']]; classes = ['fs:' + cfg['name'], 'csum:v%d' % case['csum'], 'fmt:%s' % ('64' if case['fmt64'] else '32')]
    b = base_image(env, case['fs'])
    if b is None: return (None, fp, False, None, classes + ['skip:base'])
    base, pool = b; bs = cfg['bs']; d = env['dir']; t = env['asan']
    img = os.path.join(d, 'c03.img'); shutil.copyfile(base, img)
    jbase = env.get('base_j', {}).get(case['fs']); jimg = None
    if jbase: jimg = os.path.join(d, 'c03.jnl'); shutil.copyfile(jbase, jimg); classes.append('external-journal')
    try: expected, touched, candidates, poisoned, info = jbd2.write_journal(img, with_tail(case), pool, ext=jimg)
    except ValueError as e: return (None, fp, False, None, classes + ['skip:writer:' + str(e)[:30]])
    classes.append('damage:' + info['damage'])
    if case.get('tail'): classes.append('revoke-only-tail:%d' % case['tail'])
    if info['wrapped']: classes.append('wrap-crossed')
    with open(base, 'rb') as f: orig = f.read()
    def blk(buf, n): return buf[n * bs:(n + 1) * bs]
    results = {}
    obs_base = dict(fs=cfg['name'], fmt64=case['fmt64'], csum=case['csum'], async_commit=case['async'], damage=info['damage'], damage_at=info['damage_at'], damaged_seq=(info['log'][info['damage_at']]['seq'] if info['damage'] != 'none' and info['damage_at'] < len(info['log']) else None), accepted=info['accepted'], log=info['log'], start=info['start'], first=info['first'], maxlen=info['maxlen'], seq0=case['seq0'])
    for fe in FRONTENDS:
        if jimg and fe == 'debugfs jr': continue
        w = os.path.join(d, 'c03w.img'); shutil.copyfile(img, w); wj = None
        if jimg: wj = os.path.join(d, 'c03w.jnl'); shutil.copyfile(jimg, wj)
        if fe == 'debugfs jr': r = vrun.run([t.debugfs, '-w', '-R', 'jr', w], merge=True, cpu=120)
        else: r = vrun.run([t.e2fsck] + fe.split()[1:] + (['-j', wj] if wj else []) + [w], merge=True, cpu=120)
        if r.rc is None or r.rc >= 90: return (dict(obs_base, kind='crash-or-sanitizer', frontend=fe, rc=r.rc, sig=r.sig, out=r.out[-500:]), fp, True, None, classes)
        with open(w, 'rb') as f: after = f.read()
        bad = []
        for n in pool:
            got = blk(after, n); o = blk(orig, n)
            if info['weak']:
                ok = got == o or got in candidates.get(n, [])
                if n in poisoned and got == poisoned[n]: bad.append((n, 'holds the image whose checksum was broken'))
                elif not ok: bad.append((n, 'holds neither its original nor any logged image'))
            else:
                want = expected.get(n, o)
                if got != want:
                    which = 'untouched original' if got == o else ('another logged image' if got in candidates.get(n, []) else 'unknown content')
                    bad.append((n, 'expected %s, found %s' % ('logged image' if n in expected else 'original (not to be replayed)', which)))
        if bad: return (dict(obs_base, kind='replayed-content-differs', frontend=fe, rc=r.rc, blocks=bad[:6], n_bad=len(bad), out=r.out[-300:]), fp, True, None, classes)
        # journal empty / no recovery requested any more (only where recovery is reported as done)
        sb = tool.sb_fields(w)
        fs_, jmap = jbd2.journal_map(w) if sb['journal_inum'] else (None, None)
        if jmap or wj:
            if wj:
                with open(wj, 'rb') as f: f.seek(jbd2.ext_journal_sb_block(bs) * bs); jsb = f.read(bs)
            else: jsb = blk(after, jmap[0])
            s_start = struct.unpack_from('>I', jsb, 0x1c)[0]
            if not info['weak'] and info['damage'] in ('none', 'stale-tail', 'missing-commit', 'commit-wrong-seq', 'zeroed-desc'):
                if s_start != 0: return (dict(obs_base, kind='journal-not-empty-after-replay', frontend=fe, s_start=s_start, rc=r.rc, out=r.out[-300:]), fp, True, None, classes)
                if sb['incompat'] & 4: return (dict(obs_base, kind='needs_recovery-still-set', frontend=fe, rc=r.rc, out=r.out[-300:]), fp, True, None, classes)
                # the emptied journal must not be able to replay the same transactions again: its next sequence number lies beyond every transaction that was accepted
                if info['accepted'] >= 1:
                    s_seq = struct.unpack_from('>I', jsb, 0x18)[0]; first_seq = info['log'][0]['seq']
                    if ((s_seq - first_seq) & 0xffffffff) < info['accepted']:
                        return (dict(obs_base, kind='journal-sequence-not-advanced', frontend=fe, s_sequence=s_seq, first_replayed=first_seq, replayed=info['accepted'], rc=r.rc), fp, True, None, classes)
        results[fe] = {n: blk(after, n) for n in pool}
        classes.append('rc:%s:%s' % (fe.split()[0], r.rc))
    if not info['weak']:
        ref = results[FRONTENDS[0]]
        for fe in [x for x in FRONTENDS[1:] if x in results]:
            df = [n for n in pool if results[fe][n] != ref[n]]
            if df: return (dict(obs_base, kind='front-ends-disagree', frontends=(FRONTENDS[0], fe), blocks=df[:6]), fp, True, None, classes)
    nontrivial = info['accepted'] >= 1 and (info['revoke_hits'] > 0 or info['escapes'] > 0 or info['wrapped'] or info['repeats'] > 0 or info['damage'] != 'none')
    for k in ('revoke_hits', 'escapes', 'repeats'):
        if info[k]: classes.append('has:' + k)
    classes.append('accepted:%d' % min(info['accepted'], 4))
    return (None, fp, nontrivial, dict(obs_base, blocks_logged=info['blocks_logged'], descriptors=info['descriptors'], revoke_hits=info['revoke_hits'], escapes=info['escapes'], wrapped=info['wrapped']), classes)

def run(ctx):
    ctx.rule = RULE
    ctx.assumptions = ['pool blocks are data blocks of a regular file and free blocks: nothing e2fsck does after the replay rewrites them',
                       'for checksum damage inside a transaction (descriptor, data or revoke block; jbd2 aborts or skips, exactly like the kernel code it is copied from) only the weak oracle is applied: original-or-logged content, never the damaged image',
                       'external journal devices are image files attached with -J device= and replayed with e2fsck -j (debugfs jr cannot name one); fast-commit areas are not generated']
    tool.replay_tier(ctx, body, envinit)
    n = int((120 if ctx.tier == 'quick' else 4000) * ctx.scale)
    hyp.run_property(ctx, strategy, body, envinit, n)

def replay_file(ctx, path): return tool.replay_file(ctx, path, body, envinit)

MANIFEST = dict(
    engine='hypothesis',
    technique='model-based property testing with Hypothesis: an independent JBD2 journal writer generates journals (all tag/checksum formats, wrap, revokes, escapes, damage suffixes); oracle = independent reference recovery model, compared block by block with e2fsck and debugfs replay results, plus front-end agreement',
    level_text='Generated-input exploration of journal replay through all three front-ends against a reference model that shares no code with jbd2/e2fsprogs.',
    level_note='Trusted: vlib/jbd2.py (format writer + 30-line recovery model), native/crcref.c (crc32c, crc32_be), vlib/e4ref.py (block map of the journal inode).')
