"""C15 — extended attributes read back exactly as set (rapidcheck sequences vs map model; in-inode / block / ea_inode; ASan+UBSan; e2fsck at the end)."""
import os
from vlib import core, rc, rcheck, run as vrun, build, fsgen
LEVEL = 'exploration'
RULE = ('rapidcheck generates a template (inode size 128/256/512/1024 x ea_inode x metadata_csum x 1k/4k x inline_data) and 2-40 ops on a regular file, a directory and an inline-data file: '
        'set (12 names per case over user./trusted./security./system./posix_acl prefixes with suffix lengths 1..255; value sizes 0, tiny, in-inode free space +-8, block free space +-8, beyond one block), '
        'remove, get, iterate, handle reopen, filesystem reopen, and "share": a second inode without attributes is made to reference the first one\'s xattr block (refcount + 1, as the kernel\'s block cache does), so that later changes go through the copy-on-write paths; oracle = name->value map compared after failed sets, reopens and at the end, inline file content unchanged, e2fsck -fn == 0; '
        'non-trivial = attributes ended up in >= 2 placements (inode body, block, ea_inode) or a name was replaced; distinct by FNV hash of the case')

def templates():
    t = []
    for isize, bs, ea, csum, inl in [(128, 1024, False, True, False), (256, 1024, False, True, True), (256, 4096, True, True, True), (512, 1024, True, False, True),
                                     (1024, 4096, False, True, True), (256, 1024, True, True, False), (128, 4096, True, True, False), (512, 4096, False, False, False),
                                     (1024, 1024, True, True, True)]:
        feats = []
        if ea: feats.append('ea_inode')
        if not csum: feats += ['^metadata_csum', 'uninit_bg']
        if inl: feats.append('inline_data')
        t.append(('isize%d-bs%d%s%s%s' % (isize, bs, '-ea_inode' if ea else '', '' if csum else '-nocsum', '-inline' if inl else ''), bs, 8193 if bs == 1024 else 2048, feats, ['-I', str(isize)]))
    return t

def make_templates(tools, d, ctx):
    n = 0
    small = os.path.join(d, 'small'); open(small, 'wb').write(b'inline-data-content-0123456789' * 1)
    big = os.path.join(d, 'big'); open(big, 'wb').write(bytes(range(256)) * 12)
    for name, bs, blocks, feats, extra in templates():
        img = os.path.join(d, 'tpl%d' % n)
        p = fsgen.mkfs(tools, img, blocks, bs, feats, extra, fstype='ext4')
        if p.rc != 0: raise RuntimeError('template %s: mke2fs failed: %s' % (name, p.out))
        tools.dbg(img, ['write %s f0' % big, 'mkdir d0', 'write %s i0' % small], write=True)
        c = tools.fsck(img, '-fn')
        if c.rc != 0: raise RuntimeError('template %s not clean: %s' % (name, c.out))
        ctx.res.count('template:' + name); n += 1
    return n

def exes():
    return {'c15_xattr': rc.compile_harness('c15_xattr')}

def _env(ctx):
    d = vrun.scratch()
    plain = vrun.Tools(build.ensure('plain')); asan = vrun.Tools(build.ensure('asan'))
    td = os.path.join(d, 'c15'); os.makedirs(td, exist_ok=True)
    n = make_templates(plain, td, ctx)
    return {'PBT_DIR': td, 'PBT_NTPL': str(n), 'PBT_E2FSCK': asan.e2fsck, 'PBT_VERIFY': os.path.join(core.VERIF, 'bin', 'xattrverify')}

def run(ctx):
    ex = exes(); env = _env(ctx)
    ctx.rule = RULE
    ctx.assumptions = ['handles are opened with XATTR_HANDLE_FLAG_RAW so posix_acl names carry opaque values', 'EXT2_ET_EA_NO_SPACE / ENOSPC are legal outcomes of set; the stored state must then equal the model']
    rcheck.replay_tier(ctx, ex, env=env)
    n = int((400 if ctx.tier == 'quick' else 6000) * ctx.scale)
    res = rc.run_harness(ex['c15_xattr'], ctx.seed, 16, n, 200, known_tags=rcheck.known_tags(ctx), env=env)
    ctx.res.merge(res)

def replay_file(ctx, path):
    return rcheck.replay_file(ctx, exes(), path, env=_env(ctx))

MANIFEST = dict(
    engine='rapidcheck',
    technique='model-based property testing (rapidcheck op sequences over ext2fs_xattr_* vs map model; e2fsck -fn as consistency oracle; ASan+UBSan)',
    level_text='Generated-sequence exploration of the xattr API against an exact name->value map on 9 inode-size/feature templates, with comparison after failures and reopens and e2fsck -fn after every sequence.',
    level_note='Trusted: the map model, e2fsck -fn as judge of leaks/double frees/hash and refcount consistency at the end of each sequence, ASan/UBSan.')
