"""C17 — block I/O layer: coherent, durable on flush, failed writes reported (G1, rapidcheck+ASan); thread-safe bitmap loading (G2, TSan)."""
import os
from vlib import rc, rcheck, run as vrun
LEVEL = 'exploration'
RULE = ('G1: rapidcheck generates a channel configuration (cached / cache=off / write-through, forced bounce, O_DIRECT, offset, undo-wrapped, block size, '
        'write_error handler) and 2-50 ops (read/write 1..12 blocks or negative byte counts, write_byte, zeroout, discard, readahead, set_blksize, flush, '
        'close+reopen, arm a failing byte range for the next k ops) on a 24-block window so the 8-entry cache thrashes; oracle = byte-array model with '
        'unknown-after-reported-error; non-trivial = a read of data last written by a different path than the one that cached it, or an injected fault fired; '
        'distinct by FNV hash of the serialised case')

def exes():
    return {'c17_io': rc.compile_harness('c17_io')}

def run(ctx):
    ex = exes()
    ctx.rule = RULE
    ctx.assumptions = ['fsync is interposed as a no-op: "durable" is judged by reading the backing file through a second descriptor',
                       'a device write failure is modelled as a byte range that fails (both pwrite64 and the lseek+write retry) for a window of operations']
    d = vrun.scratch()
    env = {'PBT_DIR': d}
    rcheck.replay_tier(ctx, ex, env=env)
    n = int((1500 if ctx.tier == 'quick' else 60000) * ctx.scale)
    res = rc.run_harness(ex['c17_io'], ctx.seed, 16, n, 200, known_tags=rcheck.known_tags(ctx), env=env)
    ctx.res.merge(res)

def replay_file(ctx, path):
    return rcheck.replay_file(ctx, exes(), path, env={'PBT_DIR': vrun.scratch()})
