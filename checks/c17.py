"""C17 — block I/O layer: coherent, durable on flush, failed writes reported (G1, rapidcheck+ASan); thread-safe bitmap loading (G2, TSan)."""
import os, random
from vlib import rc, rcheck, run as vrun, build, fsgen
LEVEL = 'exploration'
RULE = ('G1: rapidcheck generates a channel configuration (cached / cache=off / write-through, forced bounce, O_DIRECT, offset, undo-wrapped, block size, '
        'write_error handler) and 2-50 ops (read/write 1..12 blocks or negative byte counts, write_byte, zeroout, discard, readahead, set_blksize, flush, '
        'close+reopen, arm a failing byte range for the next k ops) on a 24-block window so the 8-entry cache thrashes; oracle = byte-array model with '
        'unknown-after-reported-error; non-trivial = a read of data last written by a different path than the one that cached it, or an injected fault fired; '
        'distinct by FNV hash of the serialised case')

RULE2 = ('G2: a fixture set of small images with generated geometry (1-64 groups via -g, flex_bg sizes, uninit_bg / metadata_csum / bigalloc / meta_bg / ext2/3, '
         'randomised bitmap contents) is loaded with n in {2,3,4,5,7,16,groups+1} threads under a generated schedule vector (every pread64 is delayed by '
         'schedule[arrival index]) in a TSan build; oracle = bitmaps, tail flags and success equal the single-threaded load, and no TSan report; '
         'non-trivial = at least 2 threads issued reads')

def exes():
    return {'c17_io': rc.compile_harness('c17_io'), 'c17_threads': rc.compile_harness('c17_threads', variant='tsan')}

def run(ctx):
    ex = exes()
    ctx.rule = RULE
    ctx.assumptions = ['fsync is interposed as a no-op: "durable" is judged by reading the backing file through a second descriptor',
                       'a device write failure is modelled as a byte range that fails (both pwrite64 and the lseek+write retry) for a window of operations']
    d = vrun.scratch()
    env = {'PBT_DIR': d}
    rcheck.replay_tier(ctx, ex, env=env)
    n = int((1500 if ctx.tier == 'quick' else 60000) * ctx.scale)
    res = rc.run_harness(ex['c17_io'], ctx.seed, 16, n, 200, known_tags=rcheck.known_tags(ctx), env=env)
    res.samples = res.samples[:3]
    ctx.res.merge(res)
    # ---- G2: threads (TSan) ----
    ctx.rule = RULE + ' || ' + RULE2
    tools = vrun.Tools(build.ensure('plain'))
    gd = os.path.join(d, 'g2'); os.makedirs(gd, exist_ok=True)
    nimg = 12 if ctx.tier == 'quick' else 60
    imgs = fsgen.geometry_images(tools, gd, nimg, random.Random(ctx.seed * 7919 + 17))
    ctx.res.count('g2:images', len(imgs))
    for im in imgs: ctx.res.count('g2:kind:' + im['kind'])
    env2 = {'PBT_DIR': gd, 'PBT_NIMG': str(len(imgs))}
    n2 = int((150 if ctx.tier == 'quick' else 4000) * ctx.scale)
    res2 = rc.run_harness(ex['c17_threads'], ctx.seed + 1, 16, n2, 100, known_tags=rcheck.known_tags(ctx), env=env2)
    ctx.res.merge(res2)
    ctx.assumptions.append('G2 image fixtures are a deterministic function of VERIF_SEED (python random.Random), the schedule vector and thread count come from rapidcheck; '
                           'TSan only sees executed accesses and the scheduler is perturbed, not owned')

def replay_file(ctx, path):
    return rcheck.replay_file(ctx, exes(), path, env={'PBT_DIR': vrun.scratch()})

MANIFEST = dict(
    engine='rapidcheck',
    technique='model-based property testing with fault injection (rapidcheck op sequences vs byte-array model; write-syscall interposition) + differential n-thread vs 1-thread bitmap loading under TSan with generated schedules',
    level_text='Generated-sequence exploration of the unix (and undo-wrapped) io_channel against an exact byte model, including injected device write failures, plus schedule-perturbed differential testing of threaded bitmap loading in a ThreadSanitizer build. Evidence of coherence/durability/error reporting on the explored sequences; for threads, absence of observed races on executed paths only.',
    level_note='Trusted: the byte-array model, the bad-region fault model (a failing byte range of the device for a window of operations), fsync stubbed and durability judged through a second descriptor; TSan (happens-before, executed paths only). The scheduler is perturbed through read delays, not owned.')
