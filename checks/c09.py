"""C09 — file data written through libext2fs reads back exactly (rapidcheck state sequences, sparse byte model, ASan+UBSan, e2fsck at the end)."""
import os
from vlib import rc, rcheck, run as vrun, build, fsgen
LEVEL = 'exploration'
RULE = ('rapidcheck generates a template choice (extent / block-mapped / bigalloc / inline-data files; 1k and 4k blocks; empty and nearly full filesystems; two templates whose first file already has a two-level extent tree of 1500 / 7300 single-block extents) and 2-40 ops on 1-3 files: '
        'write/read at offsets biased to block, cluster, indirect-level (12, 12+apb, 12+apb+k*apb, 12+apb+apb^2) and extent-leaf boundaries, set_size, punch, fallocate (all flag sets), '
        'flush, close, filesystem reopen; oracle = sparse byte model per file (unknown after a reported error or where the API leaves data unspecified), other files compared at the end, '
        'exact read lengths, e2fsck -fn == 0 after close; non-trivial = a read after >= 2 mutating ops on that file, or a filesystem reopen after a punch/truncate; distinct by FNV hash of the case')

TEMPLATES = [
    # (name, fstype, bs, blocks, features, extra, nearly_full)
    ('extent-1k', 'ext4', 1024, 8193, [], [], False),
    ('extent-4k', 'ext4', 4096, 4096, [], [], False),
    ('blockmap-1k', 'ext2', 1024, 8193, [], [], False),
    ('blockmap-4k', 'ext3', 4096, 4096, [], [], False),
    ('bigalloc-1k-c4', 'ext4', 1024, 16384, ['bigalloc'], ['-C', '4096'], False),
    ('bigalloc-4k-c16', 'ext4', 4096, 8192, ['bigalloc'], ['-C', '65536'], False),
    ('inline-1k', 'ext4', 1024, 8193, ['inline_data'], ['-I', '256'], False),
    ('inline-4k', 'ext4', 4096, 4096, ['inline_data'], ['-I', '512'], False),
    ('extent-1k-full', 'ext4', 1024, 8193, [], [], True),
    ('blockmap-1k-full', 'ext2', 1024, 8193, [], [], True),
    ('bigalloc-1k-c4-full', 'ext4', 1024, 16384, ['bigalloc'], ['-C', '4096'], True),
    ('extent-1k-nojournal', 'ext4', 1024, 4097, ['^has_journal', '^metadata_csum'], [], False),
    # f0 pre-populated with one extent per block (every other block): extent trees two levels deep, the 1k one with two entries in the root
    ('extent-1k-deep', 'ext4', 1024, 20480, [], [], False),
    ('extent-4k-deep', 'ext4', 4096, 6144, [], [], False),
]
PREFILL = {'extent-1k-deep': (7300, 2), 'extent-4k-deep': (1500, 2)}

def make_templates(tools, d, ctx):
    n = 0
    for name, fstype, bs, blocks, feats, extra, full in TEMPLATES:
        img = os.path.join(d, 'tpl%d' % n)
        p = fsgen.mkfs(tools, img, blocks, bs, feats, extra, fstype=fstype)
        if p.rc != 0: raise RuntimeError('template %s: mke2fs failed: %s' % (name, p.out))
        cmds = ['write /dev/null f0', 'write /dev/null f1', 'write /dev/null f2']
        if name in PREFILL:
            nb, stride = PREFILL[name]; src = os.path.join(d, 'prefill-src')
            with open(src, 'wb') as fh:
                for k in range(nb): b = k * stride; fh.seek(b * bs); fh.write(bytes([((b * 7 + 3) & 0xff) | 1]) * bs)
            cmds[0] = 'write %s f0' % src
            with open(img + '.prefill', 'w') as fh: fh.write('%d %d\n' % (nb, stride))
        r = tools.dbg(img, cmds, write=True, cpu=300)
        if full:
            # fill all but ~60 blocks/clusters
            q = tools.dbg(img, ['ffb 1 0'] if False else ['stats -h'])
            free = None
            for l in q.out.splitlines():
                if l.startswith('Free blocks:'): free = int(l.split()[-1])
            cl = 4 if 'bigalloc' in feats else 1
            fill = max(0, free - 70 * cl)
            src = os.path.join(d, 'filler'); open(src, 'wb').write(b'\xAB' * (fill * bs))
            tools.dbg(img, ['write %s filler' % src], write=True); os.unlink(src)
        c = tools.fsck(img, '-fn')
        if c.rc != 0: raise RuntimeError('template %s not clean: %s' % (name, c.out))
        ctx.res.count('template:' + name); n += 1
    return n

def exes():
    return {'c09_file': rc.compile_harness('c09_file')}

def _env(ctx):
    d = vrun.scratch()
    plain = vrun.Tools(build.ensure('plain')); asan = vrun.Tools(build.ensure('asan'))
    td = os.path.join(d, 'c09'); os.makedirs(td, exist_ok=True)
    n = make_templates(plain, td, ctx)
    return {'PBT_DIR': td, 'PBT_NTPL': str(n), 'PBT_E2FSCK': asan.e2fsck}

def run(ctx):
    ex = exes(); env = _env(ctx)
    ctx.rule = RULE
    ctx.assumptions = ['ext2fs_punch/ext2fs_fallocate are called with no open ext2_file_t on that inode (as debugfs/fuse2fs do)',
                       'fallocate with FORCE_INIT but without ZERO_BLOCKS leaves the content of newly mapped blocks unspecified',
                       'library errors ENOSPC/BLOCK_ALLOC_FAIL/FILE_TOO_BIG/... are legal outcomes; the affected range becomes unknown in the model']
    rcheck.replay_tier(ctx, ex, env=env)
    n = int((400 if ctx.tier == 'quick' else 6000) * ctx.scale)
    res = rc.run_harness(ex['c09_file'], ctx.seed, 16, n, 200, known_tags=rcheck.known_tags(ctx), env=env)
    ctx.res.merge(res)

def replay_file(ctx, path):
    return rcheck.replay_file(ctx, exes(), path, env=_env(ctx))

MANIFEST = dict(
    engine='rapidcheck',
    technique='model-based property testing (rapidcheck op sequences over ext2fs_file_*/punch/fallocate vs sparse byte model; e2fsck -fn as consistency oracle; ASan+UBSan)',
    level_text='Generated-sequence exploration against an exact byte model on every mapping type (extent, block-mapped, bigalloc, inline data), 1k/4k blocks, empty and nearly full filesystems, with e2fsck -fn after every sequence. Shows that reads return the model bytes and the filesystem stays consistent on the explored sequences.',
    level_note='Trusted: the sparse byte model (unknown after reported errors / where the API leaves content unspecified), e2fsck -fn as the consistency judge at the end of each sequence (the independent reader e4ref is used on samples in the thorough tier), ASan/UBSan. Sound usage assumptions are listed in the evidence.')
