"""C14 — metadata checksums: CRC primitives equal their definitions; what the tools write verifies under an independent implementation; every covered byte is detected."""
import os, json, shutil, struct, subprocess, hashlib, fcntl, random
from hypothesis import strategies as st
from vlib import hyp, fsgen, core, tool, run as vrun, e4ref, corrupt, rc, rcheck, build, jbd2
LEVEL = 'fault_enumeration'
TYPES = ['sb', 'gd', 'bbitmap', 'ibitmap', 'inode', 'inode', 'extent', 'dirleaf', 'dirleaf', 'dx', 'xattr', 'jsb']
HISTORY = ['none', 'tune2fs -U random', 'tune2fs -O ^metadata_csum_seed', 'tune2fs -O metadata_csum_seed -U time', 'resize2fs grow', 'e2fsck -fyD', 'debugfs writes', 'debugfs journal transaction', 'tune2fs -O ^metadata_csum;metadata_csum', 'tune2fs -I 512', 'resize2fs shrink', 'resize2fs -M', 'resize2fs shrink']
CSUM_CONFIGS = [c['name'] for c in fsgen.CONFIGS if '^metadata_csum' not in c['features'] and c['fstype'] == 'ext4']
RULE = ('three generated searches. (a) rapidcheck: (primitive in {crc32c_le, crc16, crc32_be}, seed, alignment 0-15, length 0-70000, content) -> library value == bitwise definition, and crc(a||b) == crc(crc(a), b). '
        '(b) Hypothesis: metadata_csum configuration x population x producer history out of %s -> the independent checker (own crc32c/crc16, own seeds, covered ranges from the format) finds no checksum that does not verify, incl. journal superblock / descriptor / commit / tag checksums after a debugfs journal write. '
        '(c) fault enumeration with Hypothesis: live object of type %s x a stride-selected set of up to 48 byte positions inside its checksum-covered range x bit -> with that byte changed `e2fsck -fn` must exit non-zero and the libext2fs read path of that object (open / read_bitmaps / read_inode / extent walk / dir iterate / xattrs_read) must return an error. '
        'non-trivial = (a) length > 0, (b) a history that rewrote checksums, (c) every single flip; distinct by case') % (HISTORY, sorted(set(TYPES)))

# ---------------------------------------------------------------------------------------------------------------- probe
def probe_exe():
    bdir = build.ensure('asan'); src = os.path.join(core.VERIF, 'native', 'c14_probe.c')
    h = hashlib.sha256(open(src, 'rb').read()).hexdigest()[:12]
    outd = os.path.join(os.path.dirname(bdir), 'harness'); os.makedirs(outd, exist_ok=True); exe = os.path.join(outd, 'c14_probe-' + h)
    if os.path.exists(exe): return exe
    lock = open(exe + '.lock', 'w'); fcntl.flock(lock, fcntl.LOCK_EX)
    try:
        if not os.path.exists(exe):
            cmd = ['clang', '-g', '-O1', '-fsanitize=address,undefined', '-fno-sanitize=alignment', '-I', os.path.join(bdir, 'lib'), '-I', os.path.join(build.srcdir(bdir), 'lib'), '-DHAVE_CONFIG_H', src, '-o', exe + '.tmp',
                   os.path.join(bdir, 'lib', 'libext2fs.a'), os.path.join(bdir, 'lib', 'libcom_err.a'), '-lpthread']
            p = subprocess.run(cmd, stdout=subprocess.PIPE, stderr=subprocess.STDOUT)
            if p.returncode: raise RuntimeError('probe compile failed: ' + p.stdout.decode()[-2000:])
            os.rename(exe + '.tmp', exe)
    finally: fcntl.flock(lock, fcntl.LOCK_UN); lock.close()
    return exe

def envinit(widx):
    env = hyp.img_env(widx, variants=('asan',)); env['probe'] = probe_exe(); env['objs'] = {}
    return env

# ---------------------------------------------------------------------------------------------------------------- (c) flips
def objects(env, tpl):
    """enumerates (type, label, file offset, covered length, probe args) for the live, checksummed objects of an image"""
    if tpl in env['objs']: return env['objs'][tpl]
    im = corrupt.Img(tpl); fs = im.fs; bs = fs.bs; out = {t: [] for t in set(TYPES)}
    try:
        if fs.has_mcsum:
            out['sb'].append(('superblock', 1024, 0x400, ['open']))
            gds = fs.gds()
            for g in range(fs.ngroups):
                out['gd'].append(('group descriptor %d' % g, im.gd_off(g), fs.desc, ['open']))
                if not gds[g].flags & 2: out['bbitmap'].append(('block bitmap g%d' % g, gds[g].bbitmap * bs, fs.cpg // 8, ['bitmaps']))
                if not gds[g].flags & 1: out['ibitmap'].append(('inode bitmap g%d' % g, gds[g].ibitmap * bs, fs.ipg // 8, ['bitmaps']))
            for ino in im.inuse:
                if ino in (1,): continue
                out['inode'].append(('inode %s' % im.ino_tag(ino), im.ino_off(ino), fs.isize, ['inode', str(ino)]))
            for pblk, ino in im.tree_blocks:
                b = im.rd(pblk * bs, 12); mx = struct.unpack_from('<H', b, 4)[0]
                if 12 + 12 * mx + 4 <= bs: out['extent'].append(('extent block %d of inode %d' % (pblk, ino), pblk * bs, 12 + 12 * mx + 4, ['extents', str(ino)]))
            for pblk, ino, lb, kind in im.dir_blocks:
                if kind == 'leaf': out['dirleaf'].append(('dir leaf block %d (inode %d lblk %d)' % (pblk, ino, lb), pblk * bs, bs, ['dir', str(ino)]))
                else:
                    b = im.rd(pblk * bs, bs); co = 8 if kind == 'dxnode' else 0x18 + b[0x1d]
                    limit, count = struct.unpack_from('<HH', b, co)
                    if co + limit * 8 + 8 <= bs and count <= limit:
                        # covered: [0, co + count*8) and the 8-byte tail behind the `limit` entries
                        out['dx'].append(('%s block %d (inode %d lblk %d)' % (kind, pblk, ino, lb), pblk * bs, co + count * 8, ['dir', str(ino), str(lb)]))
                        out['dx'].append(('%s tail %d (inode %d lblk %d)' % (kind, pblk, ino, lb), pblk * bs + co + limit * 8, 8, ['dir', str(ino), str(lb)]))
            owners = {}
            for ino in im.inuse:
                I = fs.read_inode(ino)
                if I.file_acl: owners.setdefault(I.file_acl, ino)
            for xb in im.xattr_blocks:
                if xb in owners: out['xattr'].append(('xattr block %d (inode %d)' % (xb, owners[xb]), xb * bs, bs, ['xattr', str(owners[xb])]))
            if fs.compat & e4ref.C_HAS_JOURNAL and fs.journal_inum:
                try:
                    f2, jmap = jbd2.journal_map(tpl)
                    jsb = im.rd(jmap[0] * bs, 1024)
                    if struct.unpack_from('>I', jsb, 0x28)[0] & 0x18: out['jsb'].append(('journal superblock', jmap[0] * bs, 1024, None))
                except Exception: pass
    finally: im.f.close()
    env['objs'][tpl] = out
    return out

def strategy_c(env):
    # objects whose verification depends on their position (group, offset inside the inode table / scan buffer) need several groups with in-use inodes: those configurations are drawn more often
    return st.fixed_dictionaries(dict(cfg=st.sampled_from(CSUM_CONFIGS + [c for c in CSUM_CONFIGS if c in ('ext4-1k-3groups-oddtable', 'ext4-1k-manygroups', 'ext4-2k-groups')] * 2), recipe=st.integers(0, len(hyp.RECIPES) - 1), type=st.sampled_from(TYPES + ['inode']), obj=st.integers(0, 100000), stride=st.sampled_from([1, 1, 3, 7, 16, 61, 128, 509]), r=st.integers(0, 100000), bit=st.integers(0, 7)))

def body_c(case, env):
    fp = core.stable_hash(case); classes = ['c:type:' + case['type']]
    tpl = hyp.template(env, case['cfg'], case['recipe'])
    if tpl is None: return (None, fp, False, None, classes + ['skip:template'])
    objs = objects(env, tpl)[case['type']]
    if not objs: return (None, fp, False, None, classes + ['skip:no-such-object'])
    # up to 4 objects of the type, spread evenly over the object list (for inodes: over the whole inode number range, i.e. over the groups), 12 byte positions each
    nobj = min(4, len(objs)); chosen = [objs[(case['obj'] + k * len(objs) // nobj) % len(objs)] for k in range(nobj)]
    stride = case['stride']; plan = []
    for label, off, ln, pargs in chosen:
        positions = list(range(case['r'] % stride, ln, stride)); per = 48 // nobj
        if len(positions) > per:
            s0 = case['r'] % (len(positions) - per + 1); positions = positions[s0:s0 + per]
        plan += [(label, off, ln, pargs, p) for p in positions]
    t = env['asan']; img = os.path.join(env['dir'], 'c14.img'); shutil.copyfile(tpl, img)
    nflips = 0; misses = []; positions = [x[4] for x in plan]
    with open(img, 'r+b') as f:
        for label, off, ln, pargs, p in plan:
            f.seek(off + p); old = f.read(1); f.seek(off + p); f.write(bytes([old[0] ^ (1 << case['bit'])])); f.flush()
            q = t.fsck(img, '-fn'); nflips += 1
            lib = None
            if pargs is not None:
                pr = vrun.run([env['probe'], img] + pargs, merge=True, cpu=60)
                lib = pr.out.strip().splitlines()[-1] if pr.out.strip() else 'no output rc=%s' % pr.rc
                if pr.rc is None or pr.rc >= 90: return (dict(kind='probe-crash-or-sanitizer', object=label, byte=p, cfg=case['cfg'], out=pr.out[-400:]), fp, True, None, classes)
            if q.truncated or q.cpu_limit_hit:
                # runaway problem listing (e.g. a directory whose size became astronomically large): e2fsck was rejecting the content; bounded-time behaviour is C06's matter
                classes.append('c:e2fsck-output-capped'); f.seek(off + p); f.write(old); f.flush(); continue
            if q.rc is None or q.rc >= 90: return (dict(kind='e2fsck-crash-or-sanitizer', object=label, byte=p, cfg=case['cfg'], rc=q.rc, sig=q.sig, out=q.out[-400:]), fp, True, None, classes)
            if q.rc == 0: misses.append(dict(who='e2fsck -fn exits 0', byte=p, object=label, says=tool.fsck_lines(q.out, 3)))
            if lib is not None and lib.startswith('RET 0 '): misses.append(dict(who='library accepts (%s)' % ' '.join(pargs), byte=p, object=label))
            f.seek(off + p); f.write(old); f.flush()
            if len(misses) >= 4: break
    classes.extend(['c:flip'] * nflips)
    if misses:
        label = misses[0]['object']; ln = [x[2] for x in plan if x[0] == label][0]
        who = sorted(set(m['who'].split(' (')[0] for m in misses if m['object'] == label)); misses = [m for m in misses if m['object'] == label]
        return (dict(kind='altered-byte-accepted', type=case['type'], object=label.split(' ')[0] + ' ' + label.split(' ')[1] if ' ' in label else label, full_object=label, cfg=case['cfg'], who=who, bit=case['bit'], covered_len=ln, misses=misses[:4]), fp, True, None, classes)
    return (None, fp, nflips > 0, dict(sub='c', cfg=case['cfg'], object=label, covered_len=ln, bytes_flipped=positions[:6] + ['...'] if len(positions) > 6 else positions, bit=case['bit']), classes)

# ---------------------------------------------------------------------------------------------------------------- (b) format-exact
def strategy_b(env):
    return st.fixed_dictionaries(dict(cfg=st.sampled_from(CSUM_CONFIGS), recipe=st.integers(0, len(hyp.RECIPES) - 1), hist=st.lists(st.integers(0, len(HISTORY) - 1), min_size=1, max_size=3), extras=st.lists(st.tuples(st.integers(0, fsgen.NKINDS - 1), st.integers(0, 2000), st.integers(0, 6000)), max_size=2)))

def journal_csum_findings(img):
    """verifies journal superblock, descriptor, tag, revoke and commit checksums of the transactions in the log with the independent crc32c"""
    out = []
    try: fs, jmap = jbd2.journal_map(img)
    except Exception: return out
    if not jmap: return out
    bs = fs.bs
    with open(img, 'rb') as f:
        def rb(l): f.seek(jmap[l] * bs); return f.read(bs)
        jsb = rb(0)
        if struct.unpack_from('>I', jsb, 0)[0] != jbd2.MAGIC: return out
        inc = struct.unpack_from('>I', jsb, 0x28)[0]; v3 = bool(inc & 0x10); v2 = bool(inc & 8)
        if not (v2 or v3): return out
        z = bytearray(jsb[:1024]); z[0xfc:0x100] = b'\0\0\0\0'
        if e4ref.crc32c(0xffffffff, bytes(z)) != struct.unpack_from('>I', jsb, 0xfc)[0]: out.append('journal superblock checksum')
        first, seq, start = struct.unpack_from('>III', jsb, 0x14); maxlen = min(struct.unpack_from('>I', jsb, 0x10)[0], len(jmap))
        if not start: return out
        seed = e4ref.crc32c(0xffffffff, jsb[0x30:0x40]); fmt64 = bool(inc & 2); tagsz = 16 if v3 else (12 + 2 - (0 if fmt64 else 4))
        pos = start; steps = 0
        def adv(p): p += 1; return first if p >= maxlen else p
        while steps < maxlen:
            steps += 1; b = rb(pos); magic, bt, s = struct.unpack_from('>III', b, 0)
            if magic != jbd2.MAGIC or s != seq: break
            if bt == 1:
                z = bytearray(b); z[bs - 4:bs] = b'\0\0\0\0'
                if e4ref.crc32c(seed, bytes(z)) != struct.unpack_from('>I', b, bs - 4)[0]: out.append('descriptor block checksum (seq %d)' % s)
                off = 12; p2 = pos
                while off + tagsz <= bs - 4:
                    if v3: blo, flags, bhi, c = struct.unpack_from('>IIII', b, off)
                    else: blo, c, flags = struct.unpack_from('>IHH', b, off)
                    p2 = adv(p2); data = rb(p2); want = e4ref.crc32c(e4ref.crc32c(seed, struct.pack('>I', s)), data)
                    if (want if v3 else want & 0xffff) != c: out.append('tag checksum (seq %d, block %d)' % (s, blo))
                    off += tagsz
                    if not flags & 2: off += 16
                    if flags & 8: break
                pos = p2
            elif bt == 2:
                z = bytearray(b); z[0x10:0x14] = b'\0\0\0\0'
                if e4ref.crc32c(seed, bytes(z)) != struct.unpack_from('>I', b, 0x10)[0]: out.append('commit block checksum (seq %d)' % s)
                seq = (seq + 1) & 0xffffffff
            elif bt == 5:
                z = bytearray(b); z[bs - 4:bs] = b'\0\0\0\0'
                if e4ref.crc32c(seed, bytes(z)) != struct.unpack_from('>I', b, bs - 4)[0]: out.append('revoke block checksum (seq %d)' % s)
            pos = adv(pos)
    return out

def body_b(case, env):
    fp = core.stable_hash(case); classes = ['b:cfg:' + case['cfg']]
    cfg = fsgen.config_by_name(case['cfg']); tp = env['plain']; bs = cfg['bs']
    tpl = hyp.template(env, case['cfg'], case['recipe'])
    if tpl is None: return (None, fp, False, None, classes + ['skip:template'])
    img = hyp.fresh_copy(env, tpl, 'c14b.img')
    extras = [tuple(x) for x in case['extras']]
    if any(HISTORY[hi].startswith('resize2fs shrink') or HISTORY[hi].endswith('-M') for hi in case['hist']) and not any(k % fsgen.NKINDS == 7 for k, a, b in extras):
        extras.append((7, sum(case['hist']) * 37, 44))     # a shrink only renumbers inodes when the removed groups hold some: fill the inode tables (directories in every group, some emptied again)
    if extras: fsgen.extras_apply(tp, img, extras, env['blobs'], bs)
    done = []; rewrote = False
    for hi in case['hist']:
        h = HISTORY[hi]; classes.append('b:hist:' + h)
        if h == 'none': continue
        if h.startswith('tune2fs'):
            for part in h[len('tune2fs '):].split(';'):
                args = part.split() if part.startswith('-') else ['-O', part]
                r = vrun.run([tp.tune2fs, '-f'] + args + [img], merge=True, cpu=300, stdin='y\ny\n'); done.append('tune2fs %s -> %s' % (part, r.rc))
                if r.rc == 0: rewrote = True
                if 'e2fsck -f' in r.out: tp.fsck(img, '-fy')
        elif h == 'resize2fs grow':
            sb = tool.sb_fields(img); r = vrun.run([tp.resize2fs, img, str(sb['nblocks'] + sb['bpg'] * 2 + 77)], merge=True, cpu=300); done.append('resize2fs -> %s' % r.rc); rewrote = rewrote or r.rc == 0
        elif h in ('resize2fs shrink', 'resize2fs -M'):
            # shrinking renumbers the inodes of the removed groups: every checksum seeded with an inode number (directory blocks, extent blocks, inode, EA inodes) has to be rewritten
            sb = tool.sb_fields(img); ng = (sb['nblocks'] - sb['first_data'] + sb['bpg'] - 1) // sb['bpg']
            if h.endswith('-M'): cmd = [tp.resize2fs, '-M', img]
            else:
                if ng < 2: continue
                cmd = [tp.resize2fs, img, str(sb['first_data'] + sb['bpg'] * max(1, ng - 1 - (hi % 2)))]
            r = vrun.run(cmd, merge=True, cpu=300); done.append('%s -> %s' % (' '.join(cmd[1:-1] if h.endswith('-M') else [cmd[-1]]) and h, r.rc)); rewrote = rewrote or r.rc == 0
            if r.rc != 0 and tp.fsck(img, '-fn').rc != 0: return (None, fp, False, None, classes + ['skip:resize-refused-and-not-clean'])
        elif h == 'e2fsck -fyD': r = tp.fsck(img, '-fyD', cpu=120); done.append('e2fsck -fyD -> %s' % r.rc); rewrote = True
        elif h == 'debugfs writes':
            r = tp.dbg(img, ['mkdir c14d', 'write %s c14d/f' % os.path.join(env['blobs'], 'mid'), 'symlink c14d/l %s' % ('z' * 300), 'ea_set c14d user.c14 %s' % ('v' * 300), 'rm /small'], write=True); done.append('debugfs writes'); rewrote = True
            if 'quota' in cfg['features']: tp.fsck(img, '-fy')
        elif h == 'debugfs journal transaction':
            if '^has_journal' in cfg['features']: continue
            if tool.sb_fields(img)['incompat'] & 4: continue
            try:
                ck0 = e4ref.Checker(img); ck0.run()
                free = [b_ for b_ in range(ck0.fs.blocks - 1, ck0.fs.first_data, -1) if b_ not in ck0.fixed and b_ not in ck0.owners][:4]     # the logged images must land on free blocks
            except Exception: continue
            if len(free) < 4: continue
            # one logged block starts with the jbd2 magic number and therefore has to be escaped in the log (its tag checksum covers the escaped bytes)
            mg = os.path.join(env['blobs'], 'c14-jbd2-magic-%d' % bs)
            if not os.path.exists(mg):
                with open(mg, 'wb') as fh: fh.write((jbd2.MAGICB + bytes(range(1, 253))) * (bs // 256))
            tp.dbg(img, ['jo -c', 'jw -b %d /dev/zero' % free[0], 'jw -b %d %s' % (free[1], mg), 'jw -r %d' % free[2], 'jc', 'jo -c', 'jw -b %d %s' % (free[3], os.path.join(env['blobs'], 'small')), 'jc'], write=True); done.append('debugfs journal transactions with jo -c (one escaped block)'); rewrote = True
    jf = journal_csum_findings(img)
    if jf: return (dict(kind='journal-checksum-does-not-verify', cfg=case['cfg'], history=done, findings=jf[:5]), fp, True, None, classes)
    if tool.sb_fields(img)['incompat'] & 4:
        classes.append('b:journal-verified-with-pending-transactions')
        tp.fsck(img, '-fy')      # replay, so that the filesystem part can be judged as well
    try: f = e4ref.Checker(img).run()
    except e4ref.Unsupported: return (None, fp, False, None, classes + ['skip:unsupported'])
    except Exception as e: return (None, fp, False, None, classes + ['skip:reader:' + type(e).__name__])
    cs = [repr(x) for x in f if x.inv == 'csum']
    if cs: return (dict(kind='checksum-does-not-verify', cfg=case['cfg'], history=done, findings=cs[:6]), fp, True, None, classes)
    return (None, fp, rewrote, dict(sub='b', cfg=case['cfg'], history=done), classes)

# ---------------------------------------------------------------------------------------------------------------- driver
def body(case, env):
    return body_c(case, env) if 'type' in case else body_b(case, env)

def run(ctx):
    ctx.rule = RULE
    ctx.assumptions = ['covered ranges come from the format: superblock 0..0x3ff, whole descriptor, cpg/8 resp. ipg/8 bitmap bytes, whole inode incl. extra fields, extent header+eh_max entries+tail, whole directory leaf incl. tail, dx header..count entries + tail, whole xattr block, 1024-byte journal superblock',
                       'for the library any error return counts as detection (a changed byte may break the structure before the checksum is looked at)', 'MMP blocks are not swept (every tool run on an MMP filesystem sleeps); journal descriptor/commit/revoke/data coverage is decided by C03 damage suffixes']
    tool.replay_tier(ctx, body, envinit)
    ex = rc.compile_harness('c14_crc')
    res = rc.run_harness(ex, ctx.seed, 16, int((6000 if ctx.tier == 'quick' else 400000) * ctx.scale), 200, known_tags=rcheck.known_tags(ctx))
    ctx.res.merge(res)
    hyp.run_property(ctx, strategy_b, body_b, envinit, max(2, int((25 if ctx.tier == 'quick' else 800) * ctx.scale)))
    hyp.run_property(ctx, strategy_c, body_c, envinit, max(2, int((30 if ctx.tier == 'quick' else 600) * ctx.scale)))

def replay_file(ctx, path):
    j = json.load(open(path))
    if isinstance(j.get('case'), dict) and 'harness' in j['case']: return rcheck.replay_file(ctx, {'c14_crc': rc.compile_harness('c14_crc')}, path)
    return tool.replay_file(ctx, path, body, envinit)

MANIFEST = dict(
    engine='hypothesis',
    technique='fault enumeration + property-based testing: (a) rapidcheck CRC primitives vs bitwise definitions, (b) Hypothesis producer histories judged by an independent checksum implementation (filesystem and journal), (c) Hypothesis-selected byte flips across the covered range of every live checksummed object, judged by e2fsck -fn exit status and the libext2fs read path',
    level_text='Fault enumeration over checksum-covered bytes (stride-sampled positions per object, thousands of flips per run) plus generated-input exploration of CRC primitives and of what the tools write.',
    level_note='Trusted: native/crcref.c + vlib/e4ref.py (independent checksum definitions and covered ranges), native/c14_probe.c (thin driver of the public libext2fs read calls), harness/c14_crc.cc reference loops.')
