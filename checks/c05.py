"""C05 — e2fsck never alters healthy files (Hypothesis; oracle = tree digest through the independent reader before/after)."""
import os, json, shutil
from hypothesis import strategies as st
from vlib import hyp, corrupt, fsgen, core, tool, e4ref
LEVEL = 'exploration'
MODES = ['-fp', '-fy', '-fyD', '-fy -E bmap2extent', '-fy -E fixes_only']
RULE = ('Hypothesis draws (configuration out of %d, population recipe, 0-4 extra generated population ops (directories up to 900 entries with names 1-250 bytes incl. names starting with dots/dashes/high bytes, files, symlinks, xattrs, sparse files, files mixing adjacent written/unwritten extents in needlessly deep extent trees, split extent roots), repair mode out of %s, '
        'and either no damage (class healthy) or 1-5 mutations confined to bitmap bits, per-group counts, ITABLE_ZEROED and checksum fields (class summary)); '
        'oracle: digest (path, type, size, content sha256, mode, uid, gid, nlink, hard-link group, symlink target, xattrs) computed by the independent reader e4ref before and after the run must be equal, '
        'the exit status must be 0 or 1 (class summary under -fp: preen may decline - exit 4, or 8 when the primary superblock checksum is stale and preen does not try backups - which is not a claimed repair, but the files must still be intact), and a following e2fsck -fn must exit 0; '
        'non-trivial = healthy: the run rewrote more than 4 blocks of the image (re-indexed a directory / converted a mapping); summary: e2fsck fixed at least one problem; distinct by case') % (len(fsgen.CONFIGS), MODES)
CFG_NAMES = [c['name'] for c in fsgen.CONFIGS]
RECIPES = hyp.RECIPES + [dict(dirents=420, longnames=200, frag=20)]

summary_mut = st.tuples(st.integers(0, 4), st.integers(0, 63), st.integers(0, 500), st.integers(0, 1 << 16), st.booleans())
extra_op = st.tuples(st.integers(0, fsgen.NKINDS - 1), st.integers(0, 2000), st.integers(0, 6000))

def strategy(env):
    return st.fixed_dictionaries(dict(cfg=st.sampled_from(CFG_NAMES), recipe=st.integers(0, len(RECIPES) - 1), mode=st.integers(0, len(MODES) - 1),
                                      extras=st.lists(extra_op, max_size=4), summ=st.one_of(st.just([]), st.lists(summary_mut, min_size=1, max_size=5))))

def envinit(widx):
    env = hyp.img_env(widx, variants=('asan',)); env['dg'] = {}
    return env

def _ngroups(img):
    try: return e4ref.FS(img).ngroups
    except Exception: return -1

def body(case, env):
    classes = ['cfg:' + case['cfg'], 'mode:' + MODES[case['mode']], 'class:' + ('summary' if case['summ'] else 'healthy')]; fp = core.stable_hash(case)
    cfg = fsgen.config_by_name(case['cfg'])
    tpl = hyp.template(env, case['cfg'], case['recipe'], recipes=RECIPES)
    if tpl is None: return (None, fp, False, None, classes + ['skip:template-build-failed'])
    img = hyp.fresh_copy(env, tpl); t = env['asan']
    if case['extras']:
        fsgen.extras_apply(env['plain'], img, case['extras'], env['blobs'], cfg['bs'], extent_fs=cfg['fstype'] == 'ext4')
        if 'quota' in cfg['features']: env['plain'].fsck(img, '-fy')
        if env['plain'].fsck(img, '-fn').rc != 0:
            # e2fsck itself may be what is wrong: the population is only discarded when the independent checker also finds it inconsistent
            if tool.ref_clean(img)[0] != 'ok': return (None, fp, False, None, classes + ['skip:base-not-clean-after-extras'])
            classes.append('e2fsck-complains-about-a-population-the-independent-checker-finds-clean')
        classes.append('extras:%d' % len(case['extras']))
        try: d0, err0 = tool.tree_digest(img)
        except Exception as e: return (None, fp, False, None, classes + ['skip:reader-error-on-base'])
    else:
        key = (case['cfg'], case['recipe'])
        if key not in env['dg']:
            try: env['dg'][key] = tool.tree_digest(tpl)
            except Exception as e: env['dg'][key] = None
        if env['dg'][key] is None: return (None, fp, False, None, classes + ['skip:reader-error-on-base'])
        d0, err0 = env['dg'][key]
    if err0: return (None, fp, False, None, classes + ['skip:reader-findings-on-base'])
    desc = []
    if case['summ']:
        try: desc = corrupt.apply_summary(img, [tuple(m) for m in case['summ']])
        except Exception: return (None, fp, False, None, classes + ['skip:corruptor-error'])
        if not desc: return (None, fp, False, None, classes + ['skip:nothing-applied'])
    before = img + '.before'; shutil.copyfile(img, before)
    mode = MODES[case['mode']]
    p1, probs1 = hyp.fsck_logged(t, img, mode, env)
    base = dict(cfg=case['cfg'], mode=mode, applied=desc, rc1=p1.rc, areas=corrupt.areas(desc), ngroups=_ngroups(img))
    if p1.rc is None or p1.cpu_limit_hit:
        return (dict(base, kind='crash-or-hang', sig=p1.sig, out=p1.out[-600:]), fp, True, None, classes)
    refused = False
    if p1.rc not in (0, 1):
        if case['summ'] and mode == '-fp' and p1.rc in (4, 5, 8, 12):
            classes.append('preen-refused'); refused = True     # preen declines to fix: not a claimed repair, but files must still be intact
        else:
            return (dict(base, kind='exit-status', says=tool.fsck_lines(p1.out), tail=p1.out[-400:]), fp, True, None, classes)
    try: d1, err1 = tool.tree_digest(img)
    except Exception as e:
        return (dict(base, kind='tree-unreadable-after', err=repr(e)[:200]), fp, True, None, classes)
    diffs = tool.digest_diff(d0, d1)
    if diffs or (err1 and not refused):
        return (dict(base, kind='files-changed', diffs=diffs, reader_errors=[repr(x) for x in err1[:4]], says=tool.fsck_lines(p1.out)), fp, True, None, classes)
    if not refused:
        p2 = t.fsck(img, '-fn')
        if p2.rc != 0:
            return (dict(base, kind='not-clean-after', rc2=p2.rc, says=tool.fsck_lines(p2.out)), fp, True, None, classes)
    nchanged = len(tool.changed_blocks(before, img, cfg['bs']))
    fixed = [c for c, a in probs1 if a == 1]
    nontrivial = (bool(fixed) or bool(p1.rc & 1)) if case['summ'] else nchanged > 4
    classes.append('rewrote:%s' % ('0' if nchanged == 0 else '1-4' if nchanged <= 4 else '5+'))
    sample = dict(cfg=case['cfg'], mode=mode, extras=case['extras'], applied=desc, blocks_rewritten=nchanged, files=len(d0), rc=p1.rc) if nontrivial else None
    return (None, fp, nontrivial, sample, classes)

def run(ctx):
    ctx.rule = RULE
    ctx.assumptions = ['only the attributes the property lists are compared (times and directory sizes are not)', 'class summary never touches a byte that belongs to a file: bitmap bits, group counters (itable_unused only lowered), ITABLE_ZEROED, checksum fields']
    tool.replay_tier(ctx, body, envinit)
    n = int((400 if ctx.tier == 'quick' else 4000) * ctx.scale)
    hyp.run_property(ctx, strategy, body, envinit, n)

def replay_file(ctx, path): return tool.replay_file(ctx, path, body, envinit)

MANIFEST = dict(
    engine='hypothesis',
    technique='property-based testing with Hypothesis: generated filesystems x repair modes x summary-only damage; oracle = before/after tree digest by an independent ext4 reader + e2fsck -fn',
    level_text='Generated-input exploration: every case builds a populated filesystem, runs one repairing e2fsck mode (ASan build) and compares a full tree digest computed by a reader that shares no code with e2fsprogs.',
    level_note='Trusted: vlib/e4ref.py as the reader of file content/attributes (calibrated clean on all generated images), the summary-only corruptor (never touches file-owned bytes).')
