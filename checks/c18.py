"""C18 — populating from a host directory tree is exact, reproducible, and extraction returns the same data (Hypothesis-generated host trees)."""
import os, json, shutil, struct, re, random, hashlib, socket, stat, tempfile
from hypothesis import strategies as st
from vlib import hyp, fsgen, core, tool, run as vrun, e4ref
LEVEL = 'exploration'
FS = [
    dict(name='ext4-1k', opts=['-t', 'ext4', '-b', '1024']), dict(name='ext4-4k', opts=['-t', 'ext4', '-b', '4096']), dict(name='ext4-2k-nocsum', opts=['-t', 'ext4', '-b', '2048', '-O', '^metadata_csum']),
    dict(name='ext4-1k-inline', opts=['-t', 'ext4', '-b', '1024', '-O', 'inline_data', '-I', '256']), dict(name='ext4-4k-inline-ea', opts=['-t', 'ext4', '-b', '4096', '-O', 'inline_data,ea_inode', '-I', '512']),
    dict(name='ext4-1k-bigalloc', opts=['-t', 'ext4', '-b', '1024', '-O', 'bigalloc', '-C', '4096']), dict(name='ext3-1k', opts=['-t', 'ext3', '-b', '1024']), dict(name='ext2-4k', opts=['-t', 'ext2', '-b', '4096']),
    dict(name='ext2-1k-i128', opts=['-t', 'ext2', '-b', '1024', '-I', '128']), dict(name='ext4-1k-nojournal-nodirindex', opts=['-t', 'ext4', '-b', '1024', '-O', '^has_journal,^dir_index']),
    dict(name='ext4-1k-quota', opts=['-t', 'ext4', '-b', '1024', '-O', 'quota,project']), dict(name='ext4-2k-smallgroups', opts=['-t', 'ext4', '-b', '2048', '-g', '1024']),
]
KINDS = ['dir', 'dir', 'file', 'file', 'file', 'sparse', 'sparse', 'symlink', 'hardlink', 'hardlink', 'chr', 'blk', 'fifo', 'sock', 'manyfiles', 'manyfiles', 'bigfile']
RULE = ('Hypothesis draws a host tree (3-40 nodes: directories to depth 5, files 0..300 KiB with generated content, sparse files with holes at the start/middle/end (block aligned or not), symlinks 1..4095 bytes, hard-link groups across directories, '
        'char/block devices, fifos, sockets, directories with up to 300 entries, names of 1..255 arbitrary bytes, full mode bits incl. setuid/setgid/sticky, uid/gid up to 2^32-2, mtimes 0..2^31-1, user.* xattrs of 0..3000 bytes) and one of %d filesystem configurations. '
        '`mke2fs -d` builds the image; an independent reader (e4ref) must find exactly the same names, types, rdev, sizes, content hashes, symlink targets, hard-link groups, permission bits, owners, whole-second mtimes and user xattrs, every block that lies fully inside a host hole must be unmapped in the image, '
        'e2fsck -fn must exit 0 and the independent checker must be clean; a second build from the same input must be byte-identical; `debugfs rdump` into a fresh directory (and `dump`/`cat` of sampled files) must return the same names, bytes, lengths, link targets, rwx bits and owners for regular files, directories and symlinks. '
        'one case in five adds a very sparse file whose data segment lies at a byte offset around 2^31/2^32/2^33 (digested block-sparsely on both sides; not extracted); non-trivial = the tree has a hard-link group, a sparse file and a directory larger than one block, or such a huge sparse file; distinct by tree') % len(FS)

namebytes = st.one_of(st.text(alphabet='abcXYZ019._-+~ ', min_size=1, max_size=20).map(lambda s: s.encode()), st.binary(min_size=1, max_size=255), st.integers(1, 255).map(lambda n: b'L' * n), st.sampled_from([b'..a', b'...', b'.hidden', b'-dash', b'sp ace', b'\xff\xfe', b'\xc3\xa9t\xc3\xa9', b'tab\there', b'new\nline', b'star*', b'q?']))
node = st.fixed_dictionaries(dict(kind=st.sampled_from(KINDS), parent=st.integers(0, 50), name=namebytes, size=st.integers(0, 300000), seed=st.integers(0, 1 << 30), mode=st.integers(0, 0o7777), uid=st.sampled_from([0, 0, 1000, 65534, 65536, 4000000000, 4294967294]),
                                 gid=st.sampled_from([0, 0, 100, 65535, 70000, 4294967294]), mtime=st.one_of(st.integers(0, 2147483647), st.sampled_from([0, 1, 2147483647, 1700000000, 1699999999])), xattrs=st.lists(st.tuples(st.text(alphabet='abcdefgh._0', min_size=1, max_size=40), st.integers(0, 3000)), max_size=3),
                                 hole=st.tuples(st.integers(0, 2), st.integers(0, 400000), st.integers(1, 30000))))
def strategy(env):
    return st.fixed_dictionaries(dict(fs=st.integers(0, len(FS) - 1), nodes=st.lists(node, min_size=8, max_size=40), clamp=st.booleans(),
                                      huge=st.one_of(st.none(), st.none(), st.none(), st.none(), st.tuples(st.integers(0, len(HUGE_OFFS) - 1), st.integers(-5000, 5000), st.integers(1, 30000), st.integers(0, 3)))))
# data segments next to and beyond 2^31 / 2^32 / 2^33 bytes: offsets that do not fit 32 bits
HUGE_OFFS = [1 << 32, (1 << 32) + 4096, (1 << 32) - 4096, 1 << 31, (1 << 33) + 8192, 3 << 31, (1 << 32) + (1 << 20),
             # first blocks of the double- and triple-indirect ranges of a block-mapped file (N = addresses per block): 12+N and 12+N+N^2, resolved per block size in body()
             ('ind', 1, 0), ('ind', 2, 0), ('ind', 2, -1), ('ind', 2, 1), ('ind', 1, -1)]

def envinit(widx):
    env = hyp.img_env(widx, variants=('asan',))
    env['host'] = tempfile.mkdtemp(prefix='e2verif-c18.%d.' % os.getpid(), dir='/var/tmp')       # a real ext4 directory: mknod, user xattrs and SEEK_HOLE work there (not on tmpfs)
    old = env['_cleanup']
    def cl():
        shutil.rmtree(env['host'], ignore_errors=True); old()
    env['_cleanup'] = cl
    return env

def content(seed, size):
    h = hashlib.sha256(b'%d' % seed).digest()
    return (h * (size // 32 + 1))[:size]

def build_tree(root, nodes, bs, big_xattr=False):
    """creates the host tree; returns list of created relative paths (bytes) with kind, plus flags"""
    shutil.rmtree(root, ignore_errors=True); os.makedirs(root)
    rb = root.encode(); dirs = [b'']; files = []; made = []; flags = dict(hardlink=False, sparse=False, bigdir=False)
    used = set()
    def path(parent, name):
        d = dirs[parent % len(dirs)]
        if d.count(b'/') >= 5: d = b''
        rel = (d + b'/' + name) if d else name
        return d, rel
    for n in nodes:
        if isinstance(n['name'], str):     # replay files store names as latin-1 strings (or the repr of a bytes object when written by the driver)
            import ast
            n = dict(n, name=ast.literal_eval(n['name']) if n['name'].startswith(("b'", 'b"')) else n['name'].encode('latin-1'))
        name = n['name'].replace(b'/', b'_').replace(b'\0', b'_')[:255]
        if name in (b'.', b'..', b'lost+found'): name = b'x' + name
        d, rel = path(n['parent'], name)
        if rel in used: continue
        full = rb + b'/' + rel; k = n['kind']
        try:
            if k == 'dir':
                os.mkdir(full); dirs.append(rel)
            elif k in ('file', 'bigfile'):
                sz = n['size'] if k == 'bigfile' else n['size'] % 9000
                with open(full, 'wb') as f: f.write(content(n['seed'], sz))
                files.append(rel)
            elif k == 'sparse':
                where, hole, ln = n['hole']; data = content(n['seed'], ln)
                with open(full, 'wb') as f:
                    if where == 0: f.seek(hole); f.write(data)                                  # hole at the start
                    elif where == 1: f.write(data); f.seek(hole + ln); f.write(data)            # hole in the middle
                    else: f.write(data); f.truncate(ln + hole)                                  # hole at the end
                files.append(rel); flags['sparse'] = True
            elif k == 'symlink':
                os.symlink(b't' * (1 + n['size'] % min(4095, bs - 1)) if n['seed'] % 3 else content(n['seed'], 1 + n['size'] % 200).hex().encode()[:1 + n['size'] % 400], full)
            elif k == 'hardlink':
                if not files: continue
                os.link(rb + b'/' + files[n['seed'] % len(files)], full); flags['hardlink'] = True; used.add(rel); made.append((rel, k)); continue
            elif k == 'chr': os.mknod(full, stat.S_IFCHR | 0o600, os.makedev(n['seed'] % 4000, n['size'] % 1000))
            elif k == 'blk': os.mknod(full, stat.S_IFBLK | 0o600, os.makedev(n['seed'] % 255, n['size'] % 255))
            elif k == 'fifo': os.mkfifo(full)
            elif k == 'sock':
                if len(full) > 100: continue
                s = socket.socket(socket.AF_UNIX); s.bind(full); s.close()
            elif k == 'manyfiles':
                os.mkdir(full); dirs.append(rel); cnt = 1 + n['size'] % 300
                for i in range(cnt):
                    with open(full + b'/e%03d' % i + b'n' * (n['seed'] % 40), 'wb') as f: f.write(b'')
                if cnt * (12 + n['seed'] % 40) > bs: flags['bigdir'] = True
        except OSError:
            continue
        used.add(rel); made.append((rel, k))
        if k != 'symlink':
            try: os.chmod(full, n['mode'] | (0o700 if k in ('dir', 'manyfiles') else 0))
            except OSError: pass
        try: os.chown(full, n['uid'], n['gid'], follow_symlinks=False)
        except OSError: pass
        if k in ('file', 'bigfile', 'sparse', 'dir', 'manyfiles'):
            for xn, xl in n['xattrs']:
                if not big_xattr: xl = xl % max(1, bs // 4 - 80)      # without ea_inode all attributes of an inode share the in-inode area and one block
                try: os.setxattr(full, b'user.' + xn.encode(), content(xl, xl))
                except OSError: pass
    # times last (children first so that parents keep theirs)
    for (rel, k), n in sorted(zip(made, [x for x in nodes][:len(made)]), key=lambda t: -t[0][0].count(b'/')):
        try: os.utime(rb + b'/' + rel, (n['mtime'], n['mtime']), follow_symlinks=False)
        except OSError: pass
    return made, flags

def host_sparse_sha(full, size, bs):
    """same digest as e4ref.Reader.sparse_sha, computed from the host file's SEEK_DATA segments; also the number of blocks touched by data"""
    h = hashlib.sha256(); z = bytes(bs); fd = os.open(full, os.O_RDONLY); pos = 0; nblk = 0
    try:
        while pos < size:
            try: dpos = os.lseek(fd, pos, os.SEEK_DATA)
            except OSError: break
            if dpos >= size: break
            end = min(os.lseek(fd, dpos, os.SEEK_HOLE), size)
            b0 = dpos // bs
            while b0 * bs < end:
                d = os.pread(fd, bs, b0 * bs); d = d + bytes(bs - len(d))
                if d != z: h.update(struct.pack('<Q', b0)); h.update(d)
                nblk += 1; b0 += 1
            pos = b0 * bs
    finally: os.close(fd)
    return 'sparse:' + h.hexdigest(), nblk

def host_digest(root, bs):
    """path -> record, from lstat/readlink/listxattr/SEEK_HOLE"""
    rb = root.encode(); out = {}; byino = {}
    for dp, dn, fn in os.walk(rb):
        for n in dn + fn:
            full = dp + b'/' + n; rel = b'/' + full[len(rb) + 1:]; s = os.lstat(full)
            rec = dict(type=stat.S_IFMT(s.st_mode), mode=s.st_mode & 0o7777, uid=s.st_uid, gid=s.st_gid, nlink=s.st_nlink if not stat.S_ISDIR(s.st_mode) else None, mtime=int(s.st_mtime))
            if stat.S_ISREG(s.st_mode):
                rec['size'] = s.st_size; h = hashlib.sha256(); rec['alloc'] = s.st_blocks * 512
                if s.st_size > e4ref.SPARSE_SHA_OVER:
                    rec['sha'], rec['data_blocks'] = host_sparse_sha(full, s.st_size, bs)
                    byino.setdefault((s.st_dev, s.st_ino), []).append(rel); out[rel] = rec
                    continue
                with open(full, 'rb') as f:
                    for chunk in iter(lambda: f.read(1 << 20), b''): h.update(chunk)
                rec['sha'] = h.hexdigest()
                # logical blocks that lie entirely inside a hole
                holes = set(); fd = os.open(full, os.O_RDONLY); pos = 0
                try:
                    while pos < s.st_size:
                        try: dpos = os.lseek(fd, pos, os.SEEK_DATA)
                        except OSError: dpos = s.st_size
                        for b in range((pos + bs - 1) // bs, dpos // bs): holes.add(b)
                        if dpos >= s.st_size: break
                        pos = os.lseek(fd, dpos, os.SEEK_HOLE)
                finally: os.close(fd)
                rec['holes'] = holes
                byino.setdefault((s.st_dev, s.st_ino), []).append(rel)
            elif stat.S_ISLNK(s.st_mode): rec['target'] = os.readlink(full); rec['size'] = len(rec['target'])
            elif stat.S_ISCHR(s.st_mode) or stat.S_ISBLK(s.st_mode): rec['rdev'] = (os.major(s.st_rdev), os.minor(s.st_rdev))
            if not stat.S_ISLNK(s.st_mode):
                try:
                    xa = {k: os.getxattr(full, k) for k in os.listxattr(full) if k.startswith('user.')}
                except OSError: xa = {}
                if xa: rec['xattr'] = {k.encode(): hashlib.sha256(v).hexdigest()[:16] + ':%d' % len(v) for k, v in xa.items()}
            out[rel] = rec
    for grp in byino.values():
        if len(grp) > 1:
            for r in grp: out[r]['links'] = sorted(grp)
    return out

def image_digest(img, bs):
    R = e4ref.Reader(img); d = R.digest(skip_lost_found=True); out = {}; byino = {}
    for p, r in d.items():
        if 'bad_inode' in r: out[p] = dict(bad=True); continue
        rec = dict(type=r['type'], mode=r['mode'], uid=r['uid'], gid=r['gid'], nlink=r['nlink'] if r['type'] != 0o040000 else None, mtime=r['mtime'])
        I = R.fs.read_inode(r['ino'])
        if r['type'] == 0o100000:
            rec['size'] = r['size']; rec['sha'] = r['sha']; rec['mapped'] = R.mapped_blocks(I); byino.setdefault(r['ino'], []).append(p)
            rec['n_mapped'] = len(rec['mapped'])
        elif r['type'] == 0o120000: rec['target'] = r['target']; rec['size'] = r['size']
        elif r['type'] in (0o020000, 0o060000):
            v = r['rdev']
            rec['rdev'] = ((v >> 8) & 0xfff, (v & 0xff) | ((v >> 12) & 0xfff00)) if r.get('rdev_new') else ((v >> 8) & 0xff, v & 0xff)
        if 'xattr' in r:
            xa = {k: v for k, v in r['xattr'].items() if k.startswith(b'user.')}
            if xa: rec['xattr'] = xa
        out[p] = rec
    for grp in byino.values():
        if len(grp) > 1:
            for r in grp: out[r]['links'] = sorted(grp)
    return out, R.errors

def compare(host, image, check_mtime, bigalloc_ratio=1):
    diffs = []
    for p in sorted(set(host) | set(image)):
        if p not in image: diffs.append('missing in image: %r (%o)' % (p[:80], host[p]['type'])); continue
        if p not in host: diffs.append('extra in image: %r' % (p[:80],)); continue
        h = host[p]; i = image[p]
        for k in ('type', 'mode', 'uid', 'gid', 'nlink', 'size', 'sha', 'target', 'rdev', 'xattr', 'links') + (('mtime',) if check_mtime else ()):
            if h.get(k) != i.get(k): diffs.append('%r: %s host=%r image=%r' % (p[:60], k, h.get(k) if k != 'target' else (h.get(k) or b'')[:40], i.get(k) if k != 'target' else (i.get(k) or b'')[:40]))
        if 'data_blocks' in h and i.get('n_mapped', 0) > (h['data_blocks'] + 2) * bigalloc_ratio:
            diffs.append('%r: %d blocks mapped in the image for %d host blocks holding data' % (p[:60], i['n_mapped'], h['data_blocks']))
        if 'holes' in h and 'mapped' in i:
            # with bigalloc a cluster is allocated as a whole: a hole block is only required to be unmapped when its entire cluster lies in the hole
            bad = sorted(b for b in h['holes'] & i['mapped'] if all((b // bigalloc_ratio) * bigalloc_ratio + k in h['holes'] for k in range(bigalloc_ratio)))
            if bad: diffs.append('%r: %d block(s) inside a host hole are mapped in the image (first %s)' % (p[:60], len(bad), bad[:4]))
        if len(diffs) > 8: break
    return diffs

def body(case, env):
    fp = core.stable_hash(case); fsd = FS[case['fs']]; classes = ['fs:' + fsd['name']]
    bs = int(fsd['opts'][fsd['opts'].index('-b') + 1]); d = env['dir']; t = env['asan']; tp = env['plain']
    root = os.path.join(env['host'], 'tree')
    made, flags = build_tree(root, case['nodes'], bs, big_xattr='ea_inode' in ' '.join(fsd['opts']))
    for k in sorted(set(k for r, k in made)): classes.append('node:' + k)
    huge = case.get('huge')
    if huge:
        # one very sparse file whose data lies at byte offsets >= 2 GiB (optionally with a head segment and a trailing hole)
        oi, delta, ln, shape = huge; ho = HUGE_OFFS[oi]
        if isinstance(ho, tuple):
            N = bs // 4; ho = (12 + N + (N * N if ho[1] == 2 else 0) + ho[2]) * bs; delta = delta % bs if shape & 1 else 0
            if ho > (6 << 30): ho = (12 + N) * bs      # 4k blocks: the triple-indirect range starts beyond 4 GiB - fine - but keep the host file within reason
        off = max(0, ho + delta)
        with open(os.path.join(root, 'huge-sparse'), 'wb') as f:
            if shape & 1: f.write(content(ln, 1 + ln % 9000))
            f.seek(off); f.write(content(off & 0xffff, ln))
            if shape & 2: f.truncate(off + ln + 123457)
        os.utime(os.path.join(root, 'huge-sparse'), (1000000000, 1000000000)); os.utime(root, (1000000000, 1000000000))
        classes.append('huge-sparse-file')
    host = host_digest(root, bs)
    img = os.path.join(d, 'c18.img'); img2 = os.path.join(d, 'c18b.img')
    total = sum(min(r.get('size', 0), r.get('alloc', 0) + 8192) for r in host.values() if r['type'] == 0o100000)
    nblocks = max(8192 if bs == 1024 else 4096, int((total * 2 + len(host) * 3000) / bs) + 4096)
    ratio = 4 if 'bigalloc' in fsd['name'] else 1
    if ratio > 1: nblocks = max(nblocks, 16384) * 2
    cmd = ['-q', '-F'] + fsd['opts'] + ['-U', fsgen.UUID, '-E', 'hash_seed=' + fsgen.HASH_SEED + ',lazy_itable_init=0,lazy_journal_init=0', '-N', str(max(256, len(host) * 2 + 64))]
    renv = {'SOURCE_DATE_EPOCH': str(vrun.FAKE_TIME)} if case['clamp'] else {}
    def mk(target):
        if os.path.exists(target): os.unlink(target)
        with open(target, 'wb') as f: f.truncate(nblocks * bs)
        # reading the tree moves host atimes: the digest does not use them, but the reproducibility sub-check needs identical input -> reset before each build
        for p, r in host.items():
            try: os.utime(root.encode() + p, (r['mtime'], r['mtime']), follow_symlinks=False)
            except OSError: pass
        return vrun.run([t.mke2fs] + cmd + ['-d', root, target, str(nblocks)], env=renv, merge=True, cpu=300)
    p = mk(img)
    base = dict(fs=fsd['name'], nodes=[(r[:40], k) for r, k in made][:12], n_entries=len(host), mke2fs_says=p.out[-300:])
    if p.rc is None or p.rc >= 90: return (dict(base, kind='mke2fs-crash-or-sanitizer', rc=p.rc, sig=p.sig, report=[l for l in p.out.splitlines() if 'ERROR' in l or l.strip().startswith('#')][:12]), fp, True, None, classes)
    if p.rc != 0:
        classes.append('mke2fs-refused')
        if os.environ.get('VERIF_C18_DEBUG'): print('REFUSED', fsd['name'], p.out[-200:].replace('\n', ' | '))
        return (None, fp, False, None, classes)
    q = t.fsck(img, '-fn')
    if q.rc != 0: return (dict(base, kind='not-consistent', says=tool.fsck_lines(q.out, 8)), fp, True, None, classes)
    stt, fnd = tool.ref_clean(img)
    if stt == 'broken': return (dict(base, kind='independent-checker', findings=fnd), fp, True, None, classes)
    try: image, rerr = image_digest(img, bs)
    except e4ref.Unsupported as e: classes.append('reader-unsupported'); return (None, fp, False, None, classes)
    except Exception as e: return (dict(base, kind='image-unreadable', err=repr(e)[:300]), fp, True, None, classes)
    # with SOURCE_DATE_EPOCH mtimes later than the epoch are clamped (documented): compare mtimes only when not clamping, or clamp the expectation
    hostc = host
    if case['clamp']:
        hostc = {pp: dict(r, mtime=min(r['mtime'], vrun.FAKE_TIME)) for pp, r in host.items()}
    diffs = compare(hostc, image, check_mtime=True, bigalloc_ratio=ratio)
    if diffs or rerr: return (dict(base, kind='image-differs-from-tree', diffs=diffs[:8], reader_errors=[repr(x) for x in rerr[:3]], clamp=case['clamp']), fp, True, None, classes)
    # reproducible
    if case['clamp']:
        p2 = mk(img2)
        if p2.rc != 0 or vrun.sha256_file(img) != vrun.sha256_file(img2):
            return (dict(base, kind='not-reproducible', rc2=p2.rc, differing_blocks=tool.changed_blocks(img, img2, bs)[:10]), fp, True, None, classes)
        classes.append('reproducible-checked')
    if huge and b'/huge-sparse' in host and host[b'/huge-sparse']['size'] > e4ref.SPARSE_SHA_OVER:
        # debugfs dump writes holes out as zeros: extracting a multi-GiB sparse file would cost GiBs of disk per worker; the image-side comparison above is the check for this file
        nontrivial = True
        return (None, fp, nontrivial, dict(fs=fsd['name'], entries=len(host), kinds=sorted(set(k for r, k in made)) + ['huge-sparse'], clamp=case['clamp'], huge=dict(size=host[b'/huge-sparse']['size'], data_blocks=host[b'/huge-sparse'].get('data_blocks'))), classes + ['extraction-skipped(huge)'])
    # extraction
    out = os.path.join(env['host'], 'out'); shutil.rmtree(out, ignore_errors=True); os.makedirs(out)
    r = vrun.run([t.debugfs, '-R', 'rdump / %s' % out, img], merge=True, cpu=300)
    if r.rc is None or r.rc >= 90: return (dict(base, kind='debugfs-crash-or-sanitizer', rc=r.rc, sig=r.sig, out=r.out[-300:]), fp, True, None, classes)
    ex = []
    ob = out.encode()
    for pth, h in host.items():
        if h['type'] not in (0o100000, 0o040000, 0o120000): continue
        full = ob + pth
        try: s = os.lstat(full)
        except OSError: ex.append('not extracted: %r' % (pth[:80],)); continue
        if stat.S_IFMT(s.st_mode) != h['type']: ex.append('%r: extracted type %o' % (pth[:60], stat.S_IFMT(s.st_mode))); continue
        if h['type'] == 0o120000:
            if os.readlink(full) != h['target']: ex.append('%r: extracted link target differs' % (pth[:60],))
            continue
        if (s.st_mode & 0o777) != (h['mode'] & 0o777): ex.append('%r: extracted permission bits %o, expected %o' % (pth[:60], s.st_mode & 0o777, h['mode'] & 0o777))
        if (s.st_uid, s.st_gid) != (h['uid'], h['gid']): ex.append('%r: extracted owner %d:%d, expected %d:%d' % (pth[:60], s.st_uid, s.st_gid, h['uid'], h['gid']))
        if h['type'] == 0o100000:
            if s.st_size != h['size']: ex.append('%r: extracted length %d, expected %d' % (pth[:60], s.st_size, h['size'])); continue
            hh = hashlib.sha256()
            with open(full, 'rb') as f:
                for chunk in iter(lambda: f.read(1 << 20), b''): hh.update(chunk)
            if hh.hexdigest() != h['sha']: ex.append('%r: extracted bytes differ' % (pth[:60],))
        if len(ex) > 6: break
    extra = []
    for dp, dn, fn in os.walk(ob):
        for n in dn + fn:
            rel = b'/' + (dp + b'/' + n)[len(ob) + 1:]
            if rel not in host and not rel.startswith(b'/lost+found'): extra.append(rel[:80])
    if ex or extra: return (dict(base, kind='extraction-differs', problems=ex[:8], extra=extra[:4], rdump_said=r.out[-300:]), fp, True, None, classes)
    # dump / cat of a sampled safe-named file
    safe = [pth for pth, h in host.items() if h['type'] == 0o100000 and re.match(rb'^[/A-Za-z0-9._+~-]+$', pth) and not pth.split(b'/')[-1].startswith(b'-')]
    if safe:
        pth = sorted(safe)[case['nodes'][0]['seed'] % len(safe)]; tgt = os.path.join(env['host'], 'dumped')
        r1 = vrun.run([t.debugfs, '-R', 'dump %s %s' % (pth.decode(), tgt), img], merge=True, cpu=60)
        r2 = vrun.run([t.debugfs, '-R', 'cat %s' % pth.decode(), img], cpu=60, max_out=1 << 22)
        want = open(root.encode() + pth, 'rb').read()
        got1 = open(tgt, 'rb').read() if os.path.exists(tgt) else None
        if got1 != want: return (dict(base, kind='dump-differs', path=pth[:80], got=len(got1) if got1 is not None else None, want=len(want)), fp, True, None, classes)
        if len(want) < (1 << 20) and r2.out.encode('latin-1') != want: return (dict(base, kind='cat-differs', path=pth[:80], got=len(r2.out), want=len(want)), fp, True, None, classes)
        classes.append('dump-cat-checked')
    nontrivial = flags['hardlink'] and flags['sparse'] and flags['bigdir']
    for k, v in flags.items():
        if v: classes.append('tree:' + k)
    return (None, fp, nontrivial, dict(fs=fsd['name'], entries=len(host), kinds=sorted(set(k for r, k in made)), clamp=case['clamp']), classes)

def run(ctx):
    ctx.rule = RULE
    ctx.assumptions = ['the image\'s root directory attributes and lost+found are excluded', 'hole fidelity is one-directional (a host hole must stay a hole; mke2fs may also turn all-zero data blocks into holes); with bigalloc a hole block must be unmapped only when its whole cluster is a hole',
                       'the reproducibility sub-check runs under SOURCE_DATE_EPOCH, which clamps times later than the epoch (documented); the fidelity comparison then expects the clamped mtimes',
                       'setuid/sticky bits and times are not asserted on extraction (the property lists rwx bits and owners)']
    tool.replay_tier(ctx, body, envinit)
    n = int((100 if ctx.tier == 'quick' else 1500) * ctx.scale)
    hyp.run_property(ctx, strategy, body, envinit, n)

def replay_file(ctx, path): return tool.replay_file(ctx, path, body, envinit)

MANIFEST = dict(
    engine='hypothesis',
    technique='property-based testing with Hypothesis over generated host directory trees and filesystem configurations; oracles: independent reader digest vs lstat/readlink/xattr/SEEK_HOLE digest of the source, e2fsck -fn, independent checker, run-twice determinism, rdump/dump/cat round trip',
    level_text='Generated-input exploration: host trees with every file type, arbitrary byte names, sparse files, hard links, xattrs and extreme owners/times are copied by mke2fs -d and read back by an independent reader and by debugfs extraction.',
    level_note='Trusted: vlib/e4ref.py reader, the host ext4 file system under /var/tmp (mknod, user xattrs, SEEK_HOLE), sha256.')
