"""C10 — directory operations keep the namespace exact at every directory size (Hypothesis op sequences through debugfs vs a reference model)."""
import os, json, shutil, re, random
from hypothesis import strategies as st
from vlib import hyp, fsgen, core, tool, run as vrun, e4ref, collide
LEVEL = 'exploration'
CONFIGS = [
    dict(name='ext4-1k-indexed', fstype='ext4', bs=1024, blocks=32768, features=['^has_journal'], extra=['-N', '7000']),
    dict(name='ext4-4k-indexed', fstype='ext4', bs=4096, blocks=8192, features=['^has_journal'], extra=['-N', '7000']),
    dict(name='ext4-2k-nocsum', fstype='ext4', bs=2048, blocks=16384, features=['^has_journal', '^metadata_csum'], extra=['-N', '7000']),
    dict(name='ext4-1k-linear', fstype='ext4', bs=1024, blocks=32768, features=['^has_journal', '^dir_index'], extra=['-N', '7000']),
    dict(name='ext4-1k-inline', fstype='ext4', bs=1024, blocks=32768, features=['^has_journal', 'inline_data'], extra=['-N', '7000', '-I', '256']),
    dict(name='ext4-4k-inline-512', fstype='ext4', bs=4096, blocks=8192, features=['^has_journal', 'inline_data'], extra=['-N', '7000', '-I', '512']),
    dict(name='ext4-1k-nofiletype', fstype='ext4', bs=1024, blocks=32768, features=['^has_journal', '^filetype'], extra=['-N', '7000']),
    dict(name='ext4-1k-nodirnlink', fstype='ext4', bs=1024, blocks=32768, features=['^has_journal', '^dir_nlink'], extra=['-N', '7000']),
    dict(name='ext4-1k-largedir', fstype='ext4', bs=1024, blocks=32768, features=['^has_journal', 'large_dir'], extra=['-N', '7000']),
    dict(name='ext3-1k', fstype='ext3', bs=1024, blocks=32768, features=[], extra=['-N', '7000']),
    dict(name='ext2-1k', fstype='ext2', bs=1024, blocks=32768, features=[], extra=['-N', '7000']),
    dict(name='ext4-1k-journal-csum', fstype='ext4', bs=1024, blocks=32768, features=[], extra=['-N', '7000']),
]
HASHES = [None, 'legacy', 'half_md4', 'tea']
OPS = ['mkdir', 'create', 'bulk', 'bulk', 'bulk', 'link', 'rm', 'rm', 'rmdir', 'symlink', 'mknod', 'bulkrm', 'bulkrm', 'fsckD', 'fsckD', 'expand_dir', 'dup', 'rmdir-nonempty', 'rm-missing', 'write-small', 'bigdir', 'collide', 'collide']
PREFIX = ['', '', '', '.', '..', '...x', '~', '+', '@', 'A', '_']
RULE = ('Hypothesis draws (configuration out of %d: linear/indexed/inline-data directories x metadata_csum x filetype x dir_nlink x large_dir x 1k/2k/4k; hash algorithm legacy/half_md4/tea x signed/unsigned; 2-12 operations out of %s '
        'with names of 1-255 bytes incl. names starting with dots, bulk creations of up to 700 names and strided bulk removals, on a tree of several directories); the reference model is a dict per directory plus link counts. '
        'After every operation `debugfs ls -p` of every touched directory must equal the model (names, inode type); at checkpoints (after each e2fsck -D and at the end) the independent reader must list the same names with the right types and link counts, '
        'e2fsck -fn must exit 0 and the independent checker must be clean (so removed objects released their inode and blocks); operations with unmet preconditions (duplicate name, rmdir of a non-empty directory, rm of a missing name) must leave everything unchanged. '
        'non-trivial = some directory grew beyond one block (leaf split / index growth / inline->block expansion) and an insertion followed a removal; distinct by case') % (len(CONFIGS), sorted(set(OPS)))

def strategy(env):
    op = st.tuples(st.sampled_from(OPS), st.integers(0, 7), st.integers(0, 10000), st.integers(0, 10000))
    return st.fixed_dictionaries(dict(cfg=st.integers(0, len(CONFIGS) - 1), hash=st.integers(0, len(HASHES) - 1), unsigned=st.booleans(), ops=st.lists(op, min_size=2, max_size=12)))

def envinit(widx):
    env = hyp.img_env(widx, variants=('asan',))
    open(os.path.join(env['blobs'], 'empty'), 'wb').close()
    with open(os.path.join(env['blobs'], 'tiny'), 'wb') as f: f.write(b'tiny file\n')
    return env

LS = re.compile(r'^/(\d+)/(\d+)/(\d+)/(\d+)/(.*)/(\d*)/$')
def listing(t, img, path):
    r = t.dbg(img, ['ls -p "%s"' % path]); names = {}
    for l in r.out.splitlines():
        m = LS.match(l)
        if not m: continue
        ino = int(m.group(1))
        if ino == 0: continue          # empty slot (debugfs prints those, with stale names)
        names[m.group(5)] = (ino, int(m.group(2), 8) & 0o170000)
    return names, r.out

KIND2FMT = {'f': 0o100000, 'd': 0o040000, 'l': 0o120000, 'p': 0o010000, 'c': 0o020000, 'b': 0o060000}

class Model:
    def __init__(s):
        s.dirs = {'/': {'lost+found': ('d', 'LF')}, '/lost+found': {}}    # path -> {name: (kind, id)}
        s.nlink = {}      # id -> link count of non-directories
        s.ctr = 0
    def dirlist(s): return sorted(s.dirs)
    def newname(s, a, b):
        s.ctr += 1; ln = 1 + b % 255; pfx = PREFIX[a % len(PREFIX)]
        base = '%s%s%05d' % (pfx, 'nm'[a % 2], s.ctr)
        return (base + 'q' * ln)[:max(ln, len(base))]
    def subdirs(s, p): return sum(1 for k, (kd, i) in s.dirs[p].items() if kd == 'd')

def body(case, env):
    fp = core.stable_hash(case); cfg = CONFIGS[case['cfg']]; classes = ['cfg:' + cfg['name']]
    d = env['dir']; img = os.path.join(d, 'c10.img'); t = env['asan']; tp = env['plain']
    p = fsgen.mk_config(tp, img, cfg)
    if p.rc != 0: return (None, fp, False, None, classes + ['skip:mke2fs'])
    h = HASHES[case['hash']]
    if h: vrun.run([tp.tune2fs, '-E', 'hash_alg=' + h, img], merge=True); classes.append('hash:' + h)
    tp.dbg(img, ['ssv flags %d' % (2 if case['unsigned'] else 1)], write=True)
    M = Model(); empty = os.path.join(env['blobs'], 'empty'); tiny = os.path.join(env['blobs'], 'tiny')
    hist = []; removed_then_inserted = False; removed = False; known_excluded = [0]; expanded_indexed = [False]
    def fail(kind, **kw):
        return (dict(kind=kind, cfg=cfg['name'], hash=h, unsigned=case['unsigned'], history=hist[-14:], expand_dir_on_indexed_directory=expanded_indexed[0], **kw), fp, True, None, classes)
    def check_dirs(paths):
        for pth in paths:
            if pth not in M.dirs: continue
            got, raw = listing(t, img, pth)
            got.pop('.', None); got.pop('..', None)
            want = {n: KIND2FMT[k] for n, (k, i) in M.dirs[pth].items()}
            gotk = {n: f for n, (i, f) in got.items()}
            if gotk != want:
                miss = sorted(set(want) - set(gotk)); extra = sorted(set(gotk) - set(want)); wrong = sorted(n for n in set(want) & set(gotk) if want[n] != gotk[n])
                return dict(dir=pth, missing=miss[:4], n_missing=len(miss), extra=extra[:4], n_extra=len(extra), wrong_type=wrong[:4], entries_expected=len(want))
        return None
    def checkpoint(label):
        q = t.fsck(img, '-fn')
        if q.rc != 0: return fail('not-consistent', at=label, says=tool.fsck_lines(q.out, 8))
        stt, fnd = tool.ref_clean(img)
        if stt == 'broken': return fail('independent-checker', at=label, findings=fnd)
        try: dg, err = tool.tree_digest(img, fields=('type', 'nlink'))
        except Exception as e: return fail('tree-unreadable', at=label, err=repr(e)[:200])
        if err: return fail('reader-findings', at=label, findings=[repr(x) for x in err[:4]])
        want = {}
        for pth, ents in M.dirs.items():
            for n, (k, i) in ents.items():
                full = (pth.rstrip('/') + '/' + n).encode('latin-1')
                if k == 'd':
                    sub = M.subdirs(pth.rstrip('/') + '/' + n if pth != '/' else '/' + n)
                    want[full] = (KIND2FMT[k], 2 + sub)
                else: want[full] = (KIND2FMT[k], M.nlink[i])
        got = {pp: (r['type'], r['nlink']) for pp, r in dg.items()}
        if got != want:
            diff = [(pp, want.get(pp), got.get(pp)) for pp in sorted(set(want) | set(got)) if want.get(pp) != got.get(pp)][:5]
            return fail('tree-differs-from-model', at=label, diffs=[(pp.decode('latin-1')[:60], w, g) for pp, w, g in diff])
        return None
    def run_cmds(cd, cmds):
        """cmds: list of (command, fn) ; fn updates the model and is applied only when debugfs printed no error for that command. -> (Proc, n_failed, last_error)"""
        r = t.dbg(img, cd + [c for c, fn in cmds], write=True, cpu=300)
        blocks = []; cur = None
        for l in r.out.splitlines():
            if l.startswith('debugfs: '): cur = []; blocks.append(cur)
            elif cur is not None and l.strip() and not re.match(r'^Allocated inode: \d+\s*$', l): cur.append(l)
        blocks = blocks[len(cd):]
        nfail = 0; last = ''
        for k, (c, fn) in enumerate(cmds):
            err = blocks[k] if k < len(blocks) else ['(no echo: debugfs stopped)']
            if err: nfail += 1; last = err[-1][:120]
            elif fn: fn()
        return r, nfail, last
    for (oi, dsel, a, b) in case['ops']:
        op = oi; dl = M.dirlist(); D = dl[dsel % len(dl)]; touched = [D]; ents = M.dirs[D]
        files = sorted(n for n, (k, i) in ents.items() if k != 'd'); subd = sorted(n for n, (k, i) in ents.items() if k == 'd' and n != 'lost+found')
        cd = ['cd "%s"' % D]; cmds = []; label = op
        def mk_file(n, kind='f'):
            def fn():
                M.ctr += 1; i = 'i%d' % M.ctr; ents[n] = (kind, i); M.nlink[i] = 1
            return fn
        def rm_file(n):
            def fn():
                k, i = ents.pop(n); M.nlink[i] -= 1
                if M.nlink[i] == 0: del M.nlink[i]
            return fn
        if op == 'mkdir':
            n = M.newname(a, b)
            def fn(n=n): ents[n] = ('d', None); M.dirs[D.rstrip('/') + '/' + n] = {}
            cmds = [('mkdir %s' % n, fn)]
        elif op in ('create', 'write-small'):
            n = M.newname(a, b); cmds = [('write %s %s' % (empty if op == 'create' else tiny, n), mk_file(n))]
        elif op == 'bulk':
            cnt = [1, 5, 20, 60, 150, 300, 700][a % 7]; L = b
            if len(ents) + cnt > 1500: cnt = 5
            names = [M.newname(a, L) for _ in range(cnt)]; cmds = [('write %s %s' % (empty, n), mk_file(n)) for n in names]; label = 'bulk(%d names of %d bytes)' % (cnt, len(names[0]))
        elif op == 'bigdir':
            # enough long names for a two-level htree on 1k/2k blocks, indexed right away by e2fsck -D; later operations then work on the deep index
            if len(ents) > 800 or cfg['bs'] > 2048: continue
            names = [M.newname(a, 220 + b % 30) for _ in range(700)]; cmds = [('write %s %s' % (empty, n), mk_file(n)) for n in names]; label = 'bigdir(700 names of %d bytes + e2fsck -D)' % len(names[0])
        elif op == 'collide':
            # names whose hashes collide (found with the independent dirhash for this filesystem's algorithm, seed and signedness) plus a varying number of fillers, indexed right away by
            # e2fsck -D: now and then a colliding pair ends up as the last entry of one leaf and the first of the next, which the index has to mark with the continuation bit
            if len(ents) > 900: continue
            try:
                fsx = e4ref.FS(img); prs = collide.pairs(fsx.def_hash, list(fsx.hash_seed), bool(fsx.sflags & 2)); fsx.f.close()
            except Exception: continue
            cn = [n.decode('latin-1') for pr in prs for n in pr if n.decode('latin-1') not in ents]
            names = cn + [M.newname(a, 6 + b % 40) for _ in range(15 + (a * 7 + b) % 120)]
            cmds = [('write %s %s' % (empty, n), mk_file(n)) for n in names]; label = 'collide(%d colliding names + %d fillers + e2fsck -D)' % (len(cn), len(names) - len(cn))
        elif op == 'link':
            if not files: continue
            src = files[a % len(files)]; k, i = ents[src]
            if M.nlink[i] >= 60: continue
            D2 = dl[b % len(dl)]; n = M.newname(a, b); touched.append(D2)
            # debugfs ln does not bump i_links_count (documented): the pair ln + sif is the link operation; sif only when ln succeeded (ln may legitimately find no room in the directory)
            r, nf, last = run_cmds([], [('ln "%s/%s" "%s/%s"' % (D.rstrip('/'), src, D2.rstrip('/'), n), None)])
            if nf: hist.append('link refused (%s)' % last); classes.append('op-refused:link'); continue
            def fn(n=n, k=k, i=i, D2=D2): M.dirs[D2][n] = (k, i); M.nlink[i] += 1
            cd = []; cmds = [('sif "%s/%s" links_count %d' % (D.rstrip('/'), src, M.nlink[i] + 1), fn)]
        elif op == 'rm':
            if not files: continue
            n = files[a % len(files)]; cmds = [('rm %s' % n, rm_file(n))]; removed = True
        elif op == 'rmdir':
            cands = [n for n in subd if not M.dirs[D.rstrip('/') + '/' + n]]
            if not cands: continue
            n = cands[a % len(cands)]
            def fn(n=n): del ents[n]; del M.dirs[D.rstrip('/') + '/' + n]
            cmds = [('rmdir %s' % n, fn)]; removed = True
        elif op == 'symlink':
            n = M.newname(a, b); cmds = [('symlink %s %s' % (n, 't' * (1 + b % 900)), mk_file(n, 'l'))]
        elif op == 'mknod':
            n = M.newname(a, b); kd = 'pcb'[a % 3]; cmds = [('mknod %s %s%s' % (n, kd, '' if kd == 'p' else ' %d %d' % (a % 200, b % 200)), mk_file(n, kd))]
        elif op == 'bulkrm':
            if len(files) < 4: continue
            stride = 2 + a % 5; vic = files[b % stride::stride]; cmds = [('rm %s' % n, rm_file(n)) for n in vic]; label = 'bulkrm(%d of %d)' % (len(vic), len(files)); removed = True
        elif op == 'expand_dir':
            # known finding F-C10-3: expand_dir on an INDEXED directory appends a block the htree index does not reference. Excluded by construction (counted) so that the search continues;
            # the committed replay (allow_known) keeps reporting it as KNOWN-FINDING while it reproduces.
            try:
                R0 = e4ref.Reader(img); ino0 = 2 if D == '/' else R0.digest(content=False)[D.encode('latin-1')]['ino']; indexed = bool(R0.fs.read_inode(ino0).flags & 0x1000)
            except Exception: indexed = False
            if indexed and not case.get('allow_known'): classes.append('excluded:known:F-C10-3'); known_excluded[0] += 1; continue
            if indexed: expanded_indexed[0] = True
            cd = []; cmds = [('expand_dir "%s"' % D, None)]
        elif op == 'dup':
            cand = sorted(n for n in ents if n != 'lost+found')
            if not cand: continue
            n = cand[a % len(cand)]
            cmds = [(['mkdir %s', 'write ' + empty + ' %s', 'symlink %s tgt'][b % 3] % n, None)]; label = 'dup(%s)' % ['mkdir', 'write', 'symlink'][b % 3]
        elif op == 'rmdir-nonempty':
            cands = [n for n in subd if M.dirs[D.rstrip('/') + '/' + n]]
            if not cands: continue
            cmds = [('rmdir %s' % cands[a % len(cands)], None)]
        elif op == 'rm-missing':
            cmds = [('rm no-such-name-%d' % a, None), ('rmdir no-such-dir-%d' % b, None)]
        elif op == 'fsckD':
            r = t.fsck(img, '-fyD', cpu=120); hist.append('e2fsck -fyD -> %s' % r.rc)
            if r.rc not in (0, 1): return fail('e2fsck-D-failed', rc=r.rc, says=tool.fsck_lines(r.out, 8))
            bad = check_dirs(M.dirlist())
            if bad: return fail('listing-differs-after-e2fsck-D', **bad)
            cp = checkpoint('after e2fsck -fyD')
            if cp: return cp
            classes.append('op:fsckD'); continue
        if not cmds: continue
        if removed and op in ('mkdir', 'create', 'write-small', 'bulk', 'symlink', 'mknod', 'link'): removed_then_inserted = True
        r, nfail, last = run_cmds(cd, cmds)
        hist.append('%s in %s%s' % (label, D, (' [%d command(s) refused: %s]' % (nfail, last)) if nfail else '')); classes.append('op:' + op)
        if nfail and op not in ('dup', 'rmdir-nonempty', 'rm-missing'): classes.append('op-refused:' + op)
        if op in ('dup', 'rmdir-nonempty', 'rm-missing') and nfail != len(cmds): return fail('precondition-not-enforced', op=label, debugfs_said=r.out[-300:])
        if r.rc is None or r.rc >= 90: return fail('debugfs-crash-or-sanitizer', rc=r.rc, sig=r.sig, out=r.out[-400:])
        if op in ('bigdir', 'collide'):
            rr = t.fsck(img, '-fyD', cpu=120)
            if rr.rc not in (0, 1): return fail('e2fsck-D-failed', rc=rr.rc, says=tool.fsck_lines(rr.out, 8))
        bad = check_dirs(touched)
        if bad: return fail('listing-differs-from-model', debugfs_said=[l for l in r.out.splitlines() if l and not l.startswith('debugfs')][-3:], **bad)
    cp = checkpoint('end')
    if cp: return cp
    # size of the largest directory (blocks) from the reader: proves splits / index growth / inline expansion happened
    big = False
    try:
        R = e4ref.Reader(img)
        dg = R.digest(content=False)
        for pth in M.dirs:
            if pth == '/': ino = 2
            else:
                rec = dg.get(pth.encode('latin-1'))
                if not rec: continue
                ino = rec['ino']
            I = R.fs.read_inode(ino)
            if I.size > R.fs.bs and (pth != '/lost+found' or len(M.dirs[pth]) > 8): big = True
            if I.flags & 0x1000:
                classes.append('dir:indexed')
                try:
                    root = R.fs.rb(R.blockmap(I)[0][1]); classes.append('dir:htree-levels:%d' % (root[0x1e] + 1))
                except Exception: pass
    except Exception: pass
    classes.append('dir:multi-block' if big else 'dir:single-block')
    nontrivial = big and removed_then_inserted
    return (None, fp, nontrivial, dict(cfg=cfg['name'], hash=h, unsigned=case['unsigned'], history=hist, entries=sum(len(v) for v in M.dirs.values())), classes)

def run(ctx):
    ctx.rule = RULE
    ctx.assumptions = ['a link is the documented pair `ln` + `sif links_count` (debugfs ln alone does not touch the count)', 'entries with inode 0 printed by `ls -p` are empty slots and are ignored', 'mknod/mkdir/write are always issued after `cd <dir>` with a base name (debugfs does no path parsing there)',
                       'the 65000-subdirectory dir_nlink overflow is not reached (directories stay below 1500 entries)']
    tool.replay_tier(ctx, body, envinit)
    n = int((60 if ctx.tier == 'quick' else 1500) * ctx.scale)
    hyp.run_property(ctx, strategy, body, envinit, n)

def replay_file(ctx, path): return tool.replay_file(ctx, path, body, envinit)

MANIFEST = dict(
    engine='hypothesis',
    technique='model-based property testing with Hypothesis: generated namespace operation sequences through debugfs/libext2fs interleaved with e2fsck -D, compared with a reference model after every step; independent reader, e2fsck -fn and independent checker at checkpoints',
    level_text='Generated-sequence exploration over 12 directory configurations x 4 hash algorithms x signed/unsigned: listing after every operation, and names/types/link counts through an independent reader plus full consistency at checkpoints.',
    level_note='Trusted: the dict model, vlib/e4ref.py (listing incl. htree hash-range checks inside the checker, link counts), debugfs ls -p as the per-step listing.')
