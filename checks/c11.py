"""C11 — tune2fs conversions preserve data and consistency and change exactly the requested setting (Hypothesis sequences of tune2fs invocations)."""
import os, json, shutil, struct, re, random
from hypothesis import strategies as st
from vlib import hyp, fsgen, core, tool, run as vrun, e4ref
LEVEL = 'exploration'
FEATURES = ['metadata_csum', 'uninit_bg', 'has_journal', 'quota', 'project', 'extent', 'metadata_csum_seed', 'huge_file', 'dir_nlink', 'flex_bg', 'large_file', 'dir_index', 'ea_inode', 'large_dir', 'read-only',
            'stable_inodes', 'verity', 'extra_isize', 'orphan_file', 'sparse_super', 'filetype', '64bit', 'encrypt', 'casefold', 'fast_commit', 'ext_attr', 'resize_inode', 'meta_bg', 'inline_data', 'bigalloc']
UUIDS = ['00112233-4455-6677-8899-aabbccddeeff', 'random', 'time', 'clear', 'ffffffff-ffff-ffff-ffff-ffffffffffff']
SIMPLE = ['-L', '-M', '-m', '-r', '-e', '-c', '-i', '-C', '-T', 'stride', 'stripe_width', 'hash_alg', 'mount_opts', '-o', '-g', '-u', 'force_fsck', 'test_fs']
RULE = ('Hypothesis draws (configuration out of %d, population recipe, 0-2 extra population ops, 1-5 tune2fs invocations out of: -O [^]feature for %d features, -U {fixed, random, time, clear}, -I 256/512/1024, -Q [^]{usr,grp,prj}quota, -j/-J size=, '
        'and the plain field settings %s; optional -f). After every accepted invocation: the follow-up e2fsck that tune2fs asks for must exit 0/1, e2fsck -fn must exit 0, the independent checker must be clean (every checksum with the new seed/UUID), '
        'the tree digest must be unchanged, the requested setting must be in effect in an independent superblock parse and, for plain field settings, no other superblock field may change; a refused invocation must leave the files and consistency untouched. '
        'non-trivial = at least 2 accepted steps of which one rewrites checksums or moves metadata; distinct by (configuration, population, op list)') % (len(fsgen.CONFIGS), len(FEATURES), SIMPLE)
CFG_NAMES = [c['name'] for c in fsgen.CONFIGS]
HEAVY = {'metadata_csum', 'uninit_bg', 'has_journal', 'quota', 'project', 'metadata_csum_seed', 'extra_isize', 'orphan_file', '64bit', 'ea_inode', 'flex_bg'}

op = st.one_of(
    st.tuples(st.just('feat'), st.sampled_from(FEATURES), st.booleans(), st.booleans()),
    st.tuples(st.just('feat'), st.sampled_from(['metadata_csum', 'uninit_bg', 'has_journal', 'quota', 'metadata_csum_seed', 'orphan_file', 'extent', 'project']), st.booleans(), st.booleans()),
    st.tuples(st.just('uuid'), st.sampled_from(UUIDS), st.booleans(), st.booleans()),
    st.tuples(st.just('isize'), st.sampled_from([256, 512, 1024]), st.booleans(), st.booleans()),
    st.tuples(st.just('Q'), st.sampled_from(['usrquota', 'grpquota', 'prjquota', '^usrquota', '^grpquota', '^prjquota', 'usrquota,grpquota']), st.booleans(), st.booleans()),
    st.tuples(st.just('journal'), st.sampled_from(['-j', 'size=1', 'size=4']), st.booleans(), st.booleans()),
    st.tuples(st.just('simple'), st.sampled_from(SIMPLE), st.integers(0, 50), st.booleans()))

def strategy(env):
    return st.fixed_dictionaries(dict(cfg=st.sampled_from(CFG_NAMES), recipe=st.integers(0, len(hyp.RECIPES) - 1), extras=st.lists(st.tuples(st.integers(0, fsgen.NKINDS - 1), st.integers(0, 2000), st.integers(0, 6000)), max_size=2),
                                      ops=st.lists(op, min_size=1, max_size=5), san=st.booleans()))

def envinit(widx):
    env = hyp.img_env(widx, variants=('asan',)); env['dg'] = {}
    return env

VOLATILE = {'raw', 'checksum', 'wtime', 'mtime', 'kbytes_written', 'free_blocks', 'free_inodes', 'state', 'mnt_count'}
def simple_args(name, v):
    """-> (args, field, expected value) for the plain field settings"""
    if name == '-L': l = ['', 'lab', 'sixteen-byte-lbl', 'x' * 10][v % 4]; return ['-L', l], 'label', l.encode()[:16]
    if name == '-M': m = ['/', '/mnt/point', '/a/very/long/mount/point/path'][v % 3]; return ['-M', m], 'last_mounted', m.encode()
    if name == '-m': return ['-m', str(v)], 'r_pct', v
    if name == '-r': return ['-r', str(v * 3)], 'r_blocks', v * 3
    if name == '-e': b = ['continue', 'remount-ro', 'panic'][v % 3]; return ['-e', b], 'errors', v % 3 + 1
    if name == '-c': c = [0, 1, 20, 65000, -1][v % 5]; return ['-c', str(c)], 'max_mnt', (-1 if c in (0, -1) else c)
    if name == '-i': i = [0, 1, 30, 400][v % 4]; return ['-i', '%dd' % i], 'checkinterval', i * 86400
    if name == '-C': return ['-C', str(v)], 'mnt_count', v
    if name == '-T': return ['-T', '20200101'], 'lastcheck', 1577836800
    if name == 'stride': return ['-E', 'stride=%d' % v], 'raid_stride', v
    if name == 'stripe_width': return ['-E', 'stripe_width=%d' % (v * 4)], 'raid_stripe_width', v * 4
    if name == 'hash_alg': h = ['legacy', 'half_md4', 'tea'][v % 3]; return ['-E', 'hash_alg=' + h], 'def_hash', v % 3
    if name == 'mount_opts': m = ['', 'data=writeback', 'nodelalloc,commit=7'][v % 3]; return ['-E', 'mount_opts=' + m], 'mount_opts', m.encode()
    if name == '-o': o = ['acl', '^acl', 'user_xattr', 'journal_data', '^user_xattr', 'nobarrier', 'discard'][v % 7]; return ['-o', o], None, None
    if name == '-g': return ['-g', str(v)], 'resgid', v
    if name == '-u': return ['-u', str(v)], 'resuid', v
    if name == 'force_fsck': return ['-E', 'force_fsck'], None, None
    if name == 'test_fs': return ['-E', 'test_fs' if v % 2 else '^test_fs'], None, None
    raise KeyError(name)

def has_large_regular_inode(img):
    """any in-use regular inode (reserved ones included: the resize inode is one) whose size needs the large_file feature"""
    try:
        ck = e4ref.Checker(img); ck.run()
        return any(I.fmt == 0o100000 and I.size > 0x7fffffff for I in ck.inuse.values())
    except Exception: return False

def body(case, env):
    fp = core.stable_hash(case); classes = ['cfg:' + case['cfg']]
    cfg = fsgen.config_by_name(case['cfg']); bs = cfg['bs']; d = env['dir']
    tpl = hyp.template(env, case['cfg'], case['recipe'])
    if tpl is None: return (None, fp, False, None, classes + ['skip:template-build-failed'])
    img = hyp.fresh_copy(env, tpl, 'tn.img'); tp = env['plain']; t = env['asan'] if case['san'] else tp
    if case['extras']:
        fsgen.extras_apply(tp, img, case['extras'], env['blobs'], bs, extent_fs=cfg['fstype'] == 'ext4')
        if 'quota' in cfg['features']: tp.fsck(img, '-fy')
        if tp.fsck(img, '-fn').rc != 0: return (None, fp, False, None, classes + ['skip:base-not-clean'])
        try: d0, err0 = tool.tree_digest(img)
        except Exception as e: return (None, fp, False, None, classes + ['skip:reader:' + type(e).__name__])
    else:
        key = (case['cfg'], case['recipe'])
        if key not in env['dg']:
            try: env['dg'][key] = tool.tree_digest(tpl)
            except Exception: env['dg'][key] = None
        if env['dg'][key] is None: return (None, fp, False, None, classes + ['skip:reader-error-on-base'])
        d0, err0 = env['dg'][key]
    if err0: return (None, fp, False, None, classes + ['skip:reader-findings-on-base'])
    accepted = 0; heavy = 0; done = []
    for o in case['ops']:
        kind = o[0]; force = bool(o[3]) if kind != 'simple' else False
        sb0 = tool.sb_fields(img); f0 = set(tool.feature_set(sb0)); field = want = None
        if kind == 'feat': args = ['-O', ('' if o[2] else '^') + o[1]]
        elif kind == 'uuid': args = ['-U', o[1]]
        elif kind == 'isize': args = ['-I', str(o[1])]
        elif kind == 'Q': args = ['-Q', o[1]]
        elif kind == 'journal': args = ['-j'] if o[1] == '-j' else ['-J', o[1]]
        else: args, field, want = simple_args(o[1], o[2])
        if force: args = ['-f'] + args
        label = ' '.join(args); classes.append('op:' + (o[1] if kind in ('feat', 'simple') else kind))
        p = vrun.run([t.tune2fs] + args + [img], merge=True, cpu=300, stdin='y\ny\n')
        done.append('%s -> rc %s' % (label, p.rc))
        base = dict(cfg=case['cfg'], steps=list(done), op=label, extras=case['extras'], tune2fs_says=p.out[-400:], features_before=sorted(f0))
        if p.rc is None or p.rc >= 90 or p.cpu_limit_hit:
            return (dict(base, kind='crash-or-sanitizer', sig=p.sig), fp, True, None, classes)
        asked = None
        if re.search(r'e2fsck -f?D', p.out) or '-fD' in p.out: asked = '-fyD'
        elif re.search(r'[Pp]lease run.*e2fsck|run e2fsck -f|e2fsck -f', p.out): asked = '-fy'
        if p.rc == 0 and asked:
            r = tp.fsck(img, asked, cpu=120); classes.append('followup:' + asked)
            if r.rc not in (0, 1): return (dict(base, kind='follow-up-e2fsck-failed', rc=r.rc, says=tool.fsck_lines(r.out, 8)), fp, True, None, classes)
        q = tp.fsck(img, '-fn')
        if q.rc != 0:
            return (dict(base, kind='not-clean-after-%s' % ('accepted' if p.rc == 0 else 'refused'), rc=q.rc, says=tool.fsck_lines(q.out, 8), asked=asked), fp, True, None, classes)
        stt, fnd = tool.ref_clean(img)
        if stt == 'broken': return (dict(base, kind='independent-checker', findings=fnd, accepted=p.rc == 0), fp, True, None, classes)
        try: d1, err1 = tool.tree_digest(img)
        except e4ref.Unsupported: classes.append('reader-unsupported-after'); return (None, fp, False, None, classes)
        except Exception as e: return (dict(base, kind='tree-unreadable', err=repr(e)[:200]), fp, True, None, classes)
        df = tool.digest_diff(d0, d1)
        if df or err1: return (dict(base, kind='files-changed', diffs=df, reader_errors=[repr(x) for x in err1[:3]], accepted=p.rc == 0), fp, True, None, classes)
        if p.rc != 0: classes.append('refused'); continue
        accepted += 1; sb1 = tool.sb_fields(img); f1 = set(tool.feature_set(sb1)); bad = []
        if kind == 'feat':
            name = {'read-only': 'read_only'}.get(o[1], o[1])
            if name in tool.COMPAT or name in tool.INCOMPAT or name in tool.ROCOMPAT:
                if o[2] and name not in f1 and not (name == 'uninit_bg' and 'metadata_csum' in f1): bad.append('feature %s not set' % name)
                if not o[2] and name in f1 and not (name == '64bit' and 'resize2fs -s' in p.out): bad.append('feature %s still set' % name)   # ^64bit only prints how to do it
                # ^large_file on a filesystem that holds a regular inode >= 2 GiB (a big file, or the resize inode on 4k-block filesystems): tune2fs clears the flag and asks for e2fsck -f, which rightly sets it again
                if not o[2] and name == 'large_file' and asked and has_large_regular_inode(img): bad = [b for b in bad if 'large_file' not in b]; classes.append('large_file-restored-by-requested-fsck')
                if o[2] and name == '64bit' and 'resize2fs -b' in p.out: bad = [b for b in bad if '64bit' not in b]
            if o[1] in HEAVY and (name in f0) != (name in f1): heavy += 1
        elif kind == 'uuid':
            if o[1] not in ('random', 'time', 'clear') and sb1['uuid'] != o[1].replace('-', ''): bad.append('uuid %s' % sb1['uuid'])
            if o[1] == 'clear' and sb1['uuid'] != '0' * 32: bad.append('uuid not cleared')
            if o[1] in ('random', 'time') and sb1['uuid'] == sb0['uuid']: bad.append('uuid unchanged')
            if sb1['uuid'] != sb0['uuid'] and 'metadata_csum' in f1: heavy += 1
        elif kind == 'isize':
            if sb1['isize'] != o[1] and sb0['isize'] < o[1]: bad.append('inode size %d' % sb1['isize'])
            if sb1['isize'] != sb0['isize']: heavy += 1
        elif kind == 'Q':
            for q_ in o[1].split(','):
                off = q_.startswith('^'); fld = {'usrquota': 'usr_q', 'grpquota': 'grp_q', 'prjquota': 'prj_q'}[q_.lstrip('^')]
                if off and sb1[fld]: bad.append('%s inode still %d' % (fld, sb1[fld]))
                if not off and not sb1[fld]: bad.append('%s inode not set' % fld)
            heavy += 1
        elif kind == 'journal':
            if 'has_journal' not in f1: bad.append('no journal')
        else:
            if field == 'r_pct':
                rb = sb1['r_blocks'] | (sb1['r_blocks_hi'] << 32 if '64bit' in f1 else 0)
                if abs(rb - want * sb1['nblocks'] / 100.0) > 1.5: bad.append('reserved blocks %d for %d%%' % (rb, want))
            elif field == 'r_blocks':
                if sb1['r_blocks'] != want: bad.append('reserved blocks %d' % sb1['r_blocks'])
            elif field and sb1[field] != want: bad.append('%s is %r, requested %r' % (field, sb1[field], want))
            allowed = VOLATILE | {field, 'r_blocks', 'r_blocks_hi'} if field in ('r_pct', 'r_blocks') else VOLATILE | {field}
            if o[1] in ('-o',): allowed |= {'default_mount_opts'}
            if o[1] == 'test_fs': allowed |= {'flags'}
            if o[1] == 'force_fsck': allowed |= {'state', 'lastcheck'}
            if o[1] == '-c': allowed |= {'mnt_count'}
            for k in sb0:
                if k not in allowed and sb0[k] != sb1[k]: bad.append('unrelated superblock field %s changed: %r -> %r' % (k, sb0[k], sb1[k]))
        if bad: return (dict(base, kind='setting', mismatches=bad[:5], features_after=sorted(f1)), fp, True, None, classes)
    nontrivial = accepted >= 2 and heavy >= 1
    classes.append('accepted:%d' % min(accepted, 3)); classes.append('heavy:%d' % min(heavy, 2))
    return (None, fp, nontrivial, dict(cfg=case['cfg'], extras=case['extras'], steps=done), classes)

def run(ctx):
    ctx.rule = RULE
    ctx.assumptions = ['tune2fs prompts (e.g. for -I or -U on checksummed filesystems) are answered yes', 'when metadata_csum is enabled an explicit uninit_bg request is superseded (documented)',
                       'a refused invocation is only required to leave files and consistency intact (time stamps in the superblock may move)']
    tool.replay_tier(ctx, body, envinit)
    n = int((120 if ctx.tier == 'quick' else 3500) * ctx.scale)
    hyp.run_property(ctx, strategy, body, envinit, n)

def replay_file(ctx, path): return tool.replay_file(ctx, path, body, envinit)

MANIFEST = dict(
    engine='hypothesis',
    technique='property-based testing with Hypothesis over sequences of tune2fs invocations; oracles: e2fsck -fn, independent checker (all checksums with the new seed), before/after tree digest, independent superblock parse for requested-vs-actual and unrelated-field stability',
    level_text='Generated-sequence exploration of tune2fs (feature toggles, UUID, inode size, quota, journal and plain fields, in any order) on populated filesystems of all layouts; every accepted step is judged by e2fsck, by an independent checker and by a tree digest.',
    level_note='Trusted: vlib/e4ref.py (digest, checker), vlib/tool.sb_fields (independent superblock parse).')
