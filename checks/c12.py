"""C12 — an undo file restores the exact previous bytes; damaged undo files are refused without writing (Hypothesis over tool chains, damage and abnormal endings)."""
import os, json, shutil, struct, re, random, hashlib
from hypothesis import strategies as st
from vlib import hyp, fsgen, core, tool, run as vrun, e4ref, corrupt
LEVEL = 'exploration'
STEPS = ['tune2fs -L', 'tune2fs -O ^metadata_csum', 'tune2fs -O metadata_csum', 'tune2fs -U', 'tune2fs -O ^has_journal', 'tune2fs -m', 'tune2fs -O extent', 'tune2fs -I', 'tune2fs -O ^uninit_bg', 'tune2fs -Q usrquota',
         'resize2fs grow', 'resize2fs shrink', 'resize2fs -M', 'resize2fs -b', 'resize2fs -s', 'e2fsck -fyD', 'e2fsck -fy', 'e2fsck -fy -E bmap2extent', 'debugfs write', 'debugfs rm', 'debugfs mkdir+ea', 'mke2fs', 'mke2fs other', 'undo-redo', 'debugfs write big', 'debugfs write many']
MODES = ['chain', 'chain', 'chain', 'shared-file', 'shared-file', 'flip', 'flip', 'unfinished', 'kill', 'wrong-device', 'dry-run']
RULE = ('Hypothesis draws (configuration, recipe, 1-4 recording steps out of %s, each run with -z; mode out of {chain with one undo file per step, all steps appending to one undo file, single-bit damage of the undo file, '
        '(one shared-file case in three starts the file with mke2fs, whose undo block size is 32 KiB) '
        'recording that ends abnormally (UNDO_IO_SIMULATE_UNFINISHED), recording killed at the N-th device/undo write, undo file applied to a different filesystem, e2undo -n}). '
        'chain/shared: after e2undo (in reverse order) the device must be byte-identical, over its original length, to the snapshot before the corresponding step (checked after every undo, not only at the end); '
        'flip: for sampled and header-exhaustive single-bit flips the outcome must be "refused and device unchanged" or "device == original"; unfinished: everything but the primary superblock equals the original and the superblock lost its VALID flag; '
        'kill: every device block afterwards equals either its original or its pre-undo content; wrong device: refused, target unchanged; -n: no write in the syscall trace. '
        'non-trivial = a chain of at least 2 recorded steps or a step that moves/zeroes blocks (resize, mke2fs, -I, rehash), or a damage/abnormal mode; distinct by case') % STEPS
CFG_NAMES = [c['name'] for c in fsgen.CONFIGS]

def strategy(env):
    # (the MMP configuration is not drawn: every tool run, e2undo included, rewrites the MMP block outside the io channel, so a byte-exact comparison is meaningless there; one replay
    #  file covers the only MMP-specific behaviour of the undo manager, the close-without-write before e2fsck's reopen)
    return st.fixed_dictionaries(dict(cfg=st.sampled_from(CFG_NAMES), recipe=st.integers(0, len(hyp.RECIPES) - 1), steps=st.lists(st.tuples(st.integers(0, len(STEPS) - 1), st.integers(0, 999)), min_size=1, max_size=4),
                                      mode=st.integers(0, len(MODES) - 1), seed=st.integers(0, 1 << 30), san=st.booleans()))

def envinit(widx):
    return hyp.img_env(widx, variants=('asan',))

def sha_prefix(path, n):
    h = hashlib.sha256()
    with open(path, 'rb') as f:
        left = n
        while left > 0:
            b = f.read(min(1 << 20, left))
            if not b: break
            h.update(b); left -= len(b)
    return h.hexdigest()

def step_cmd(t, name, v, img, undo, env, cfg):
    """-> argv (list) or None when not applicable; stdin"""
    bs = cfg['bs']
    if name.startswith('tune2fs'):
        a = name.split()[1:]
        if a[0] == '-L': a = ['-L', 'u%d' % (v % 100)]
        elif a[0] == '-U': a = ['-f', '-U', ['random', '00112233-4455-6677-8899-aabbccddeeff', 'time'][v % 3]]
        elif a[0] == '-m': a = ['-m', str(v % 40)]
        elif a[0] == '-I': a = ['-I', str([256, 512, 1024][v % 3])]
        elif a[0] == '-Q': a = ['-Q', a[1]]
        return [t.tune2fs, '-z', undo] + a + [img], 'y\ny\n'
    if name.startswith('resize2fs'):
        sb = tool.sb_fields(img); nb = sb['nblocks']; bpg = sb['bpg']
        if name.endswith('grow'): return [t.resize2fs, '-z', undo, img, str(min(nb + bpg * (1 + v % 5) + v % bpg, (64 << 20) // bs))], None
        if name.endswith('shrink'): return [t.resize2fs, '-z', undo, img, str(max(nb - bpg * (1 + v % 3) - v % 97, nb // 2))], None
        return [t.resize2fs, '-z', undo, name.split()[1], img], None
    if name.startswith('e2fsck'):
        return [t.e2fsck, '-z', undo] + name.split()[1:] + [img], None
    if name.startswith('debugfs'):
        if name.endswith('write'): scr = 'write %s u%d\n' % (os.path.join(env['blobs'], 'mid'), v)
        elif name.endswith('write big'): scr = ''.join('write %s ub%d_%d\n' % (os.path.join(env['blobs'], 'big'), v, k) for k in range(1 + v % 4))     # 90-360 KB: spans several 32 KiB undo blocks
        elif name.endswith('write many'): scr = 'mkdir um%d\n' % v + ''.join('write %s um%d/f%d\n' % (os.path.join(env['blobs'], 'mid' if k % 3 else 'small'), v, k) for k in range(10 + v % 60))
        elif name.endswith('rm'): scr = 'rm %s\n' % ['/big', '/mid', '/d1/d2/d3/deep', '/sparse'][v % 4]
        else: scr = 'mkdir ud%d\nea_set ud%d user.k %s\nsymlink ud%d/l %s\n' % (v, v, 'v' * (v % 200 + 1), v, 't' * (v % 300 + 1))
        return [t.debugfs, '-w', '-z', undo, '-f', '-', img], scr
    if name.startswith('mke2fs'):
        if name == 'mke2fs': return [t.mke2fs, '-q', '-F', '-z', undo, '-t', 'ext4', '-b', str(bs), '-U', fsgen.UUID, '-E', 'hash_seed=' + fsgen.HASH_SEED, img], None
        return [t.mke2fs, '-q', '-F', '-z', undo, '-t', ['ext2', 'ext3', 'ext4'][v % 3], '-b', str([1024, 2048, 4096][v % 3]), '-U', fsgen.UUID, '-I', '128', '-E', 'hash_seed=' + fsgen.HASH_SEED, img], None
    return None, None

MOVERS = ('resize2fs', 'mke2fs', 'tune2fs -I', 'e2fsck -fyD', 'e2fsck -fy -E bmap2extent', 'tune2fs -O ^metadata_csum', 'tune2fs -O metadata_csum', 'tune2fs -O ^has_journal')

def body(case, env):
    fp = core.stable_hash(case); mode = MODES[case['mode']]; classes = ['mode:' + mode, 'cfg:' + case['cfg']]
    cfg = fsgen.config_by_name(case['cfg']); d = env['dir']; tp = env['plain']; t = env['asan'] if case['san'] else tp
    tpl = hyp.template(env, case['cfg'], case['recipe'])
    if tpl is None: return (None, fp, False, None, classes + ['skip:template-build-failed'])
    img = hyp.fresh_copy(env, tpl, 'un.img')
    for f in os.listdir(d):
        if f.endswith('.e2undo'): os.unlink(os.path.join(d, f))
    steps = [(STEPS[i], v) for i, v in case['steps']]
    if mode == 'shared-file' and case['seed'] % 3 == 0 and len(steps) >= 2 and not steps[0][0].startswith('mke2fs'):
        steps[0] = ('mke2fs' if case['seed'] % 2 else 'mke2fs other', steps[0][1]); classes.append('shared-file-started-by-mke2fs')
    if mode in ('flip', 'unfinished', 'kill', 'wrong-device', 'dry-run'): steps = steps[:1]
    if any(n.startswith('e2fsck -fy') and n != 'e2fsck -fyD' for n, v in steps):
        try: corrupt.apply_summary(img, [(0, case['seed'] % 5, 3, 5, False), (2, case['seed'] % 3, 0, 1, False)])
        except Exception: pass
        if case['seed'] % 2 and '^has_journal' not in cfg['features'] and cfg['fstype'] != 'ext2':
            # a committed transaction waiting in the journal (e2fsck replays it, closes and RESTARTS with a fresh open) plus damage outside the replayed blocks for the second pass
            try:
                sbf = tool.sb_fields(img); tgt = sbf['nblocks'] - 3 - case['seed'] % 50
                tp.dbg(img, ['jo', 'jw -b %d %s' % (tgt, os.path.join(env['blobs'], 'small')), 'jc', 'sif /mid links_count 7', 'sif /big links_count 3'], write=True)
                classes.append('pre:journal-transaction+wrong-link-counts')
            except Exception: pass
    # one case in four runs the recording tools with the bounce-buffer I/O path of unix_io (UNIX_IO_FORCE_BOUNCE, what direct I/O uses); when the chain starts with mke2fs the last
    # 40 KiB of the device hold junk instead of the zeroes of never-used blocks (mke2fs overwrites everything anyway; its 32 KiB undo blocks then reach across the device end)
    bounce = (case['seed'] // 7) % 4 == 3
    if bounce: classes.append('io:force-bounce')
    if steps and steps[0][0].startswith('mke2fs'):
        if case['seed'] % 3:
            # a device full of junk whose length is a multiple of the block size but not of mke2fs's 32 KiB undo block
            kib = [520, 332, 1032, 4104, 8200, 8216][(case['seed'] // 3) % 6]
            with open(img, 'wb') as f: f.write(bytes((i * 37 + 11) & 0xff | 1 for i in range(4096)) * (kib // 4))
            classes.append('junk-device:%dK' % kib)
        else:
            with open(img, 'r+b') as f:
                sz = os.path.getsize(img); f.seek(max(0, sz - 40960)); f.write(bytes((i * 37 + 11) & 0xff | 1 for i in range(min(sz, 40960))))
            classes.append('junk-tail')
    len0 = os.path.getsize(img)
    snaps = [sha_prefix(img, len0)]; undos = []; done = []; shared = mode == 'shared-file'; mover = False; failed_run_on_shared_file = False
    orig = os.path.join(d, 'orig.img'); shutil.copyfile(img, orig); bsizes = {cfg['bs']}
    for k, (name, v) in enumerate(steps):
        if name == 'undo-redo':
            if not undos or shared: continue
            u2 = os.path.join(d, 'redo%d.e2undo' % k)
            r = vrun.run([t.e2undo, '-z', u2, undos[-1], img], merge=True, cpu=120)
            if r.rc != 0 and snaps[-1] == snaps[-2] and sha_prefix(img, len0) == snaps[-1]: classes.append('noop-step-undo-file-rejected'); continue
            if r.rc != 0: return (dict(kind='e2undo-z-failed', steps=done, rc=r.rc, out=r.out[-300:], cfg=case['cfg']), fp, True, None, classes)
            if sha_prefix(img, len0) != snaps[-2]: return (dict(kind='undo-does-not-restore', at='undo-redo step (undo)', steps=done, cfg=case['cfg']), fp, True, None, classes)
            r = vrun.run([t.e2undo, u2, img], merge=True, cpu=120)
            if r.rc != 0 or sha_prefix(img, len0) != snaps[-1]:
                return (dict(kind='redo-does-not-restore', steps=done, rc=r.rc, out=r.out[-300:], cfg=case['cfg']), fp, True, None, classes)
            done.append('undo-redo ok'); classes.append('step:undo-redo'); continue
        undo = os.path.join(d, 'shared.e2undo' if shared else 'u%d.e2undo' % k)
        argv, stdin = step_cmd(t, name, v, img, undo, env, cfg)
        if argv is None: continue
        renv = {'UNIX_IO_FORCE_BOUNCE': 'yes'} if bounce else {}
        if mode == 'unfinished' or (mode == 'dry-run' and case['seed'] % 2): renv['UNDO_IO_SIMULATE_UNFINISHED'] = '1'      # e2undo -n must not write for an unfinished recording either
        if mode == 'kill':
            argv[0] = argv[0].replace(env['asan'].b, tp.b)      # the interposer needs the gcc build
            renv.update(vrun.traced_env(os.path.join(d, 'iot.log'), os.path.basename(d) + '/u', kill_at=5 + case['seed'] % 120))
            if os.path.exists(os.path.join(d, 'iot.log')): os.unlink(os.path.join(d, 'iot.log'))
        prev = os.path.join(d, 'prev.img'); shutil.copyfile(img, prev)
        r = vrun.run(argv, env=renv, stdin=stdin, merge=True, cpu=300)
        if os.path.getsize(img) < len0:
            # resize2fs truncates an image FILE when it shrinks the filesystem; a block device keeps the bytes behind the new end. Put them back (they were not written through the
            # channel, so they are not in the undo file, and on a device they would still be there).
            with open(prev, 'rb') as fsrc, open(img, 'r+b') as fdst:
                cur = os.path.getsize(img); fsrc.seek(cur); fdst.seek(cur); shutil.copyfileobj(fsrc, fdst)
            classes.append('tail-restored-after-truncating-shrink')
        ok_rc = (0, 1) if name.startswith('e2fsck') else (0,)
        classes.append('step:' + name)
        if mode == 'kill':
            if r.rc != 137: classes.append('kill:not-reached'); return (None, fp, False, None, classes)
        elif r.rc in ok_rc and not os.path.exists(undo) and sha_prefix(img, len0) != snaps[-1]:
            return (dict(kind='recording-run-wrote-no-undo-file', cfg=case['cfg'], mode=mode, steps=done + ['%s [%d] -> rc %s' % (name, v, r.rc)], out=r.out[-300:]), fp, True, None, classes)
        elif 'Undo file corrupt' in r.out and not undos and not shared:
            # the tool rejects, as corrupt, the undo file it has itself just created (nothing else ever touched that file): no recording is possible at all
            return (dict(kind='tool-rejects-the-undo-file-it-just-created', cfg=case['cfg'], mode=mode, steps=done + ['%s [%d] -> rc %s' % (name, v, r.rc)], out=r.out[-300:]), fp, True, None, classes)
        elif r.rc not in ok_rc or not os.path.exists(undo):
            classes.append('step-refused')        # the tool refused or failed: not a run that finished normally, nothing recorded that we rely on
            if shared and os.path.exists(undo) and r.rc not in ok_rc: failed_run_on_shared_file = True
            if sha_prefix(img, len0) != snaps[-1]:
                shutil.copyfile(prev, img); classes.append('refused-step-had-modified-device(rolled back by the harness)')
            if not shared and os.path.exists(undo): os.unlink(undo)
            continue
        done.append('%s [%d] -> rc %s' % (name, v, r.rc))
        if not shared or not undos: undos.append(undo)
        snaps.append(sha_prefix(img, len0))
        try: bsizes.add(tool.sb_fields(img)['bs'])
        except Exception: pass
        if name.startswith(MOVERS): mover = True
    if not undos: return (None, fp, False, None, classes + ['skip:nothing-recorded'])
    base = dict(cfg=case['cfg'], mode=mode, steps=done, blocksize_changed_within_one_undo_file=(len(bsizes) > 1 and shared))
    # ------------------------------------------------------------------ modes
    if mode in ('chain', 'shared-file'):
        if shared:
            r = vrun.run([t.e2undo, undos[0], img], merge=True, cpu=300)
            if r.rc != 0 and all(x == snaps[0] for x in snaps) and sha_prefix(img, len0) == snaps[0]:
                classes.append('noop-step-undo-file-rejected'); return (None, fp, False, None, classes)
            if r.rc != 0: return (dict(base, kind='e2undo-failed', rc=r.rc, out=r.out[-400:]), fp, True, None, classes)
            if sha_prefix(img, len0) != snaps[0]:
                df = tool.changed_blocks(orig, img, cfg['bs'])
                if failed_run_on_shared_file and df == [1024 // cfg['bs']]:
                    # a run that exits with an error leaves through exit() without closing the channel: the undo file is then marked unfinished (a run that ended abnormally),
                    # and e2undo restores every block and additionally marks the filesystem as needing a check - the second clause of the property
                    with open(orig, 'rb') as f: f.seek(1024); a = bytearray(f.read(1024))
                    with open(img, 'rb') as f: f.seek(1024); b = bytearray(f.read(1024))
                    valid_cleared = not (struct.unpack_from('<H', b, 0x3a)[0] & 1)
                    for o_, n_ in ((0x3a, 2), (0x3fc, 4)): a[o_:o_ + n_] = b[o_:o_ + n_] = bytes(n_)
                    if a == b and valid_cleared:
                        classes.append('shared-file-with-failed-run:restored-and-marked-for-check'); return (None, fp, True, dict(base, note='a failed run had appended to the file; everything restored, filesystem marked as needing a check'), classes)
                return (dict(base, kind='undo-does-not-restore', differing_blocks=df[:12], failed_run_on_shared_file=failed_run_on_shared_file), fp, True, None, classes)
        else:
            for k in range(len(undos) - 1, -1, -1):
                r = vrun.run([t.e2undo, undos[k], img], merge=True, cpu=300)
                if r.rc != 0 and snaps[k] == snaps[k + 1] and sha_prefix(img, len0) == snaps[k]:
                    classes.append('noop-step-undo-file-rejected'); continue      # the step changed nothing and recorded nothing; the device already is in the state to restore
                if r.rc != 0: return (dict(base, kind='e2undo-failed', undo_index=k, rc=r.rc, out=r.out[-400:]), fp, True, None, classes)
                if sha_prefix(img, len0) != snaps[k]:
                    return (dict(base, kind='undo-does-not-restore', undo_index=k, differing_blocks=(tool.changed_blocks(orig, img, cfg['bs'])[:12] if k == 0 else None)), fp, True, None, classes)
        nontrivial = len(done) >= 2 or mover
        return (None, fp, nontrivial, dict(base, undo_files=len(undos), undo_bytes=sum(os.path.getsize(u) for u in undos)), classes)
    undo = undos[0]; post = os.path.join(d, 'post.img'); shutil.copyfile(img, post); post_sha = vrun.sha256_file(post)
    if mode == 'dry-run':
        log = os.path.join(d, 'iot.log')
        if os.path.exists(log): os.unlink(log)
        r = vrun.run([tp.e2undo, '-n', undo, img], env=vrun.traced_env(log, 'un.img'), merge=True, cpu=120)
        wr = [(op, off) for op, off, x in vrun.parse_trace(log) if op in 'WTF']
        if wr or vrun.sha256_file(img) != post_sha: return (dict(base, kind='dry-run-wrote', writes=wr[:5], rc=r.rc), fp, True, None, classes)
        classes.append('dry-run:' + ('unfinished-recording' if case['seed'] % 2 else 'finished-recording'))
        return (None, fp, True, dict(base, rc=r.rc), classes)
    if mode == 'wrong-device':
        other = os.path.join(d, 'other.img'); shutil.copyfile(tpl, other)
        tp.dbg(other, ['write %s zz%d' % (os.path.join(env['blobs'], 'small'), case['seed'] % 9), 'ssv mnt_count %d' % (case['seed'] % 50 + 1)], write=True)
        h = vrun.sha256_file(other)
        r = vrun.run([t.e2undo, undo, other], merge=True, cpu=120)
        if vrun.sha256_file(other) != h: return (dict(base, kind='wrong-device-modified', rc=r.rc, out=r.out[-300:]), fp, True, None, classes)
        if r.rc == 0: return (dict(base, kind='wrong-device-accepted', out=r.out[-300:]), fp, True, None, classes)
        return (None, fp, True, dict(base, rc=r.rc, says=r.out[-120:]), classes)
    if mode == 'unfinished':
        r = vrun.run([t.e2undo, undo, img], merge=True, cpu=300)
        if r.rc != 0 and snaps[0] == snaps[-1]: classes.append('noop-step-undo-file-rejected'); return (None, fp, False, None, classes)
        if r.rc != 0: return (dict(base, kind='unfinished-undo-refused', rc=r.rc, out=r.out[-300:]), fp, True, None, classes)
        with open(orig, 'rb') as f: a = bytearray(f.read())
        with open(img, 'rb') as f: b = bytearray(f.read(len0))
        sb = bytes(b[1024:2048]); a[1024:2048] = b[1024:2048] = bytes(1024)
        if a != b:
            return (dict(base, kind='unfinished-undo-did-not-restore', differing_blocks=[i for i in range(0, len(a) // cfg['bs']) if a[i * cfg['bs']:(i + 1) * cfg['bs']] != b[i * cfg['bs']:(i + 1) * cfg['bs']]][:10]), fp, True, None, classes)
        if struct.unpack_from('<H', sb, 0x38)[0] == 0xEF53 and struct.unpack_from('<H', sb, 0x3a)[0] & 1:
            return (dict(base, kind='unfinished-undo-left-fs-valid'), fp, True, None, classes)
        return (None, fp, True, dict(base), classes)
    if mode == 'kill':
        r = vrun.run([t.e2undo, undo, img], merge=True, cpu=300)
        classes.append('kill:e2undo-rc:%s' % r.rc)
        if r.rc is None or r.rc >= 90: return (dict(base, kind='e2undo-crash-on-incomplete-file', rc=r.rc, sig=r.sig, out=r.out[-300:]), fp, True, None, classes)
        bs = cfg['bs']; third = []
        with open(orig, 'rb') as fo, open(post, 'rb') as fp_, open(img, 'rb') as fi:
            i = 0
            while True:
                o = fo.read(bs); p_ = fp_.read(bs); c = fi.read(bs)
                if not o: break
                if c != o and c != p_ and i != 1024 // bs: third.append(i)
                i += 1
        if third: return (dict(base, kind='third-state-after-undo-of-killed-run', blocks=third[:10], rc=r.rc), fp, True, None, classes)
        return (None, fp, True, dict(base, e2undo_rc=r.rc), classes)
    if mode == 'flip':
        size = os.path.getsize(undo); rnd = random.Random(case['seed'])
        if size == 0: classes.append('noop-step-empty-undo-file'); return (None, fp, False, None, classes)      # the step wrote nothing, so nothing was recorded: no bits to flip
        nbits = size * 8
        # header (first 1 KiB), the key area and sampled data bits
        bits = set(rnd.randrange(0, min(nbits, 8192)) for _ in range(24)) | set(rnd.randrange(0, nbits) for _ in range(40))
        data = open(undo, 'rb').read(); outcomes = {'refused': 0, 'restored': 0}
        orig_sha = vrun.sha256_file(orig) if os.path.getsize(orig) == os.path.getsize(post) else None
        for bit in sorted(bits):
            fu = os.path.join(d, 'flip.e2undo')
            with open(fu, 'wb') as f:
                b = bytearray(data); b[bit >> 3] ^= 1 << (bit & 7); f.write(b)
            w = os.path.join(d, 'flipdev.img'); shutil.copyfile(post, w)
            r = vrun.run([t.e2undo, fu, w], merge=True, cpu=120)
            after = sha_prefix(w, len0)
            if r.rc is None or r.rc >= 90: return (dict(base, kind='e2undo-crash-on-damaged-file', bit=bit, rc=r.rc, sig=r.sig, out=r.out[-300:]), fp, True, None, classes)
            if after == snaps[0]: outcomes['restored'] += 1
            elif r.rc != 0 and vrun.sha256_file(w) == post_sha: outcomes['refused'] += 1
            else:
                return (dict(base, kind='damaged-undo-file-third-state', bit=bit, byte=bit >> 3, undo_size=size, rc=r.rc, out=r.out[-300:], changed=tool.changed_blocks(post, w, cfg['bs'])[:8]), fp, True, None, classes)
        classes.append('flips:%d' % len(bits))
        return (None, fp, True, dict(base, undo_size=size, flips=len(bits), outcomes=outcomes), classes)
    return (None, fp, False, None, classes)

def run(ctx):
    ctx.rule = RULE
    ctx.assumptions = ['a recording step that the tool refuses (or that fails) records nothing the check relies on and is skipped', 'bit flips: sampled (64 positions per case, 24 of them in the first KiB) rather than exhaustive; the three-way outcome is the oracle',
                       'killed recordings: e2undo(8) documents that an undo file cannot recover from a crash, so only "no block ends in a third state" and "no crash" are required there']
    tool.replay_tier(ctx, body, envinit)
    n = int((100 if ctx.tier == 'quick' else 2000) * ctx.scale)
    hyp.run_property(ctx, strategy, body, envinit, n)

def replay_file(ctx, path): return tool.replay_file(ctx, path, body, envinit)

MANIFEST = dict(
    engine='hypothesis',
    technique='property-based testing with Hypothesis over chains of recording tool runs (-z) and damage/abnormal-ending modes; oracle = byte-exact snapshot comparison after every e2undo, three-way outcome for damaged undo files, syscall trace for -n',
    level_text='Generated-sequence exploration: chains of mke2fs/tune2fs/resize2fs/e2fsck/debugfs/e2undo recordings (separate or shared undo file) on populated filesystems, undone step by step with a byte-exact comparison; plus sampled single-bit damage, unfinished and killed recordings.',
    level_note='Trusted: sha256 snapshots, native/iotrace.c (for -n and the kill point). Undo block sizes are those the tools choose (fs block size; mke2fs 32 KiB or the block size); offsets are not varied in this version.')
