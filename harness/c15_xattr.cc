// C15: extended attributes read back exactly as set (model: map name -> value), over in-inode / block / ea_inode placements.
// cfg: [template index ($PBT_DIR/tpl<k>), name seed]
// ops: [kind, file(0 regular,1 dir,2 inline-or-regular), name index, value size selector, value seed]
//   0 set  1 remove  2 get  3 iterate-compare  4 reopen handle  5 reopen fs
#include "pbt.h"
#include <cerrno>
#include <map>
#include <sys/wait.h>
extern "C" {
#include "ext2fs/ext2fs.h"
}
using namespace pbt;
namespace {
std::string str(i64 v) { return std::to_string(v); }
typedef std::map<std::string, std::string> KV;
bool copy_file(const std::string &a, const std::string &b) {
  FILE *f = fopen(a.c_str(), "rb"), *g = fopen(b.c_str(), "wb");
  if (!f || !g) { if (f) fclose(f); if (g) fclose(g); return false; }
  std::vector<char> buf(1 << 20); size_t n;
  while ((n = fread(buf.data(), 1, buf.size(), f)) > 0) fwrite(buf.data(), 1, n, g);
  fclose(f); fclose(g); return true;
}
int run_fsck(const std::string &img, std::string *out) {
  const char *fsck = getenv("PBT_E2FSCK");
  if (!fsck) return 0;
  std::string cmd = std::string("E2FSCK_CONFIG=/dev/null ") + fsck + " -fn " + img + " 2>&1";
  FILE *p = popen(cmd.c_str(), "r");
  if (!p) return -1;
  char buf[4096]; size_t n; while ((n = fread(buf, 1, sizeof buf, p)) > 0) if (out->size() < 3000) out->append(buf, n);
  int st = pclose(p);
  return WIFEXITED(st) ? WEXITSTATUS(st) : 128;
}
struct H {
  ext2_filsys fs = nullptr; struct ext2_xattr_handle *h[3] = {nullptr, nullptr, nullptr};
  ~H() { for (auto &x : h) if (x) ext2fs_xattrs_close(&x); if (fs) ext2fs_close_free(&fs); }
};
int iter_cb(char *name, char *value, size_t len, void *data) { (*(KV *)data)[name] = std::string(value, len); return 0; }
bool legal(errcode_t e) { return e == EXT2_ET_EA_NO_SPACE || e == ENOSPC || e == EXT2_ET_BLOCK_ALLOC_FAIL || e == EXT2_ET_INODE_ALLOC_FAIL || e == EXT2_ET_EA_BAD_NAME_LEN || e == EXT2_ET_EA_BAD_VALUE_SIZE || e == EXT2_ET_FILE_TOO_BIG; }

Outcome body(const Case &c) {
  if (c.cfg.size() < 2) return Outcome();
  const char *dir = getenv("PBT_DIR");
  if (!dir) return Outcome::fail("harness", "PBT_DIR not set");
  int ntpl = atoi(getenv("PBT_NTPL") ? getenv("PBT_NTPL") : "1");
  int tpl = (int)(c.cfg[0] % ntpl); uint64_t nseed = (uint64_t)c.cfg[1];
  std::string img = std::string(dir) + "/work." + str(getpid());
  if (!copy_file(std::string(dir) + "/tpl" + str(tpl), img)) return Outcome::fail("harness", "copy template");
  struct Rm { std::string p; ~Rm() { const char *k = getenv("PBT_KEEP"); if (k) rename(p.c_str(), k); else unlink(p.c_str()); } } rm{img};
  H S;
  auto openfs = [&]() -> errcode_t { errcode_t e = ext2fs_open(img.c_str(), EXT2_FLAG_RW | EXT2_FLAG_64BITS, 0, 0, unix_io_manager, &S.fs); if (e) return e; return ext2fs_read_bitmaps(S.fs); };
  errcode_t e = openfs();
  if (e) return Outcome::fail("harness", "open " + str(e));
  const char *fnames[3] = {"f0", "d0", "i0"}; ext2_ino_t ino[3]; KV M[3];
  for (int i = 0; i < 3; i++) { e = ext2fs_namei(S.fs, EXT2_ROOT_INO, EXT2_ROOT_INO, fnames[i], &ino[i]); if (e) return Outcome::fail("harness", "namei"); }
  int isize = EXT2_INODE_SIZE(S.fs->super); long bs = S.fs->blocksize; bool ea_inode = ext2fs_has_feature_ea_inode(S.fs->super);
  count("tpl:isize" + str(isize) + ":bs" + str(bs) + (ea_inode ? ":ea_inode" : "") + (ext2fs_has_feature_metadata_csum(S.fs->super) ? ":csum" : ""));
  // content of the inline file, to prove it is untouched
  std::string inline_before;
  auto read_file = [&](ext2_ino_t in, std::string *out) -> errcode_t { ext2_file_t f; errcode_t r = ext2fs_file_open(S.fs, in, 0, &f); if (r) return r; char buf[8192]; unsigned got; out->clear(); do { r = ext2fs_file_read(f, buf, sizeof buf, &got); if (r) break; out->append(buf, got); } while (got); ext2fs_file_close(f); return r; };
  e = read_file(ino[2], &inline_before); if (e) return Outcome::fail("harness", "read i0 " + str(e));
  // name table: 12 names per case
  static const char *prefixes[] = {"user.", "trusted.", "security.", "system.", "user.", "system.posix_acl_access", "system.posix_acl_default"};
  std::vector<std::string> names;
  for (int i = 0; i < 12; i++) {
    uint64_t x = nseed * 0x9E3779B97F4A7C15ULL + i * 0xD1B54A32D192ED03ULL; x ^= x >> 31;
    int p = (int)(x % 7);
    if (p >= 5) { names.push_back(prefixes[p]); continue; }
    static const int lens[] = {1, 2, 3, 5, 8, 13, 16, 31, 64, 100, 200, 255, 254, 7, 4};
    int L = lens[(x >> 8) % 15]; std::string s = prefixes[p];
    for (int k = 0; k < L; k++) { x = x * 6364136223846793005ULL + 1442695040888963407ULL; s += (char)('a' + (x >> 33) % 26); }
    if (s == "system.data") s += "x";
    names.push_back(s);
  }
  auto get_h = [&](int f) -> errcode_t { if (S.h[f]) return 0; errcode_t r = ext2fs_xattrs_open(S.fs, ino[f], &S.h[f]); if (r) { S.h[f] = nullptr; return r; } unsigned fl = XATTR_HANDLE_FLAG_RAW; ext2fs_xattrs_flags(S.h[f], &fl, NULL); r = ext2fs_xattrs_read(S.h[f]); if (r) { ext2fs_xattrs_close(&S.h[f]); S.h[f] = nullptr; } return r; };
  auto close_h = [&](int f) { if (S.h[f]) ext2fs_xattrs_close(&S.h[f]); S.h[f] = nullptr; };
  auto compare_all = [&](int f, const std::string &at) -> Outcome {
    errcode_t r = get_h(f); if (r) return Outcome::fail("xattrs_read", "error " + str(r) + at);
    KV got; r = ext2fs_xattrs_iterate(S.h[f], iter_cb, &got); if (r) return Outcome::fail("iterate", "error " + str(r) + at);
    got.erase("system.data");
    if (got.size() != M[f].size()) { std::string d; for (auto &kv : got) if (!M[f].count(kv.first)) d += " extra:" + kv.first.substr(0, 40); for (auto &kv : M[f]) if (!got.count(kv.first)) d += " missing:" + kv.first.substr(0, 40); return Outcome::fail("iterate:keys", "stored " + str(got.size()) + " model " + str(M[f].size()) + d + at); }
    for (auto &kv : M[f]) { auto it = got.find(kv.first); if (it == got.end()) return Outcome::fail("iterate:keys", "missing " + kv.first.substr(0, 40) + at); if (it->second != kv.second) return Outcome::fail("iterate:value", "value of " + kv.first.substr(0, 40) + " len " + str(it->second.size()) + " model len " + str(kv.second.size()) + at); }
    return Outcome();
  };
  int placements_seen = 0; bool replaced_across = false; bool shared_block = false; int errors = 0; int step = 0;
  auto placement_of = [&](int f, const std::string &name) -> int {  // 1 in-inode, 2 block, 3 ea_inode  (from the library's own handle; used only for the non-triviality rule)
    (void)f; (void)name; return 0; };
  (void)placement_of;
  for (auto &op : c.ops) {
    step++;
    if (op.size() < 5) continue;
    int k = (int)op[0], f = (int)((op[1] < 0 ? -op[1] : op[1]) % 3); const std::string &name = names[(size_t)((op[2] < 0 ? -op[2] : op[2]) % 12)];
    std::string at = " [step " + str(step) + " op " + str(k) + " " + fnames[f] + " name " + name.substr(0, 30) + "(" + str(name.size()) + ") isize " + str(isize) + " bs " + str(bs) + "]";
    switch (k) {
    case 0: {
      // value size classes: around in-inode free space, around block free space, beyond a block (ea_inode), tiny, zero
      long sel = (long)(op[3] < 0 ? -op[3] : op[3]); long ibody = isize - 128 - 32 - 8 - 16 - (long)name.size(); long blockfree = bs - 32 - 4 - 16 - (long)name.size();
      long vlen;
      switch (sel % 8) {
      case 0: vlen = 0; break;
      case 1: vlen = 1 + (sel / 8) % 40; break;
      case 2: vlen = ibody + ((sel / 8) % 17) - 8; break;
      case 3: vlen = blockfree + ((sel / 8) % 17) - 8; break;
      case 4: vlen = bs + (sel / 8) % (bs + 5); break;
      case 5: vlen = (sel / 8) % 300; break;
      case 6: vlen = blockfree / 2 + ((sel / 8) % 9) - 4; break;
      default: vlen = (sel / 8) % (2 * bs + 10); break;
      }
      if (vlen < 0) vlen = 0; if (vlen > 2 * bs + 64) vlen = 2 * bs + 64;
      std::string v((size_t)vlen, 0); uint64_t x = (uint64_t)op[4] + 77; for (long i = 0; i < vlen; i++) { x = x * 6364136223846793005ULL + 1442695040888963407ULL; v[i] = (char)(x >> 33); }
      errcode_t r = get_h(f); if (r) return Outcome::fail("xattrs_read", "error " + str(r) + at);
      r = ext2fs_xattr_set(S.h[f], name.c_str(), v.data(), v.size());
      count(vlen > bs ? "set:>block" : vlen > ibody ? "set:>ibody" : "set:small");
      if (r) {
        if (!legal(r)) return Outcome::fail("set:error", "unexpected error " + str(r) + " vlen " + str(vlen) + at);
        errors++; count("err:set:" + str(r));
        close_h(f);  // the in-memory handle may have been changed; what counts is what is stored
        Outcome o = compare_all(f, at + " (after failed set, vlen " + str(vlen) + ")"); if (!o.ok) { o.tag = "after-failed-set:" + o.tag; return o; }
        break;
      }
      if (M[f].count(name)) replaced_across = true;
      M[f][name] = v;
      // immediate read-back through the same handle
      void *gv = nullptr; size_t gl = 0; r = ext2fs_xattr_get(S.h[f], name.c_str(), &gv, &gl);
      if (r) return Outcome::fail("get:error", "error " + str(r) + " right after set" + at);
      bool same = gl == v.size() && (!gl || !memcmp(gv, v.data(), gl)); ext2fs_free_mem(&gv);
      if (!same) return Outcome::fail("get:value", "value differs right after set, len " + str(gl) + " expected " + str(v.size()) + at);
      break; }
    case 1: {
      errcode_t r = get_h(f); if (r) return Outcome::fail("xattrs_read", "error " + str(r) + at);
      r = ext2fs_xattr_remove(S.h[f], name.c_str());
      if (r) { if (!legal(r)) return Outcome::fail("remove:error", "unexpected error " + str(r) + at); errors++; close_h(f); break; }
      M[f].erase(name); count("op:remove"); break; }
    case 2: {
      errcode_t r = get_h(f); if (r) return Outcome::fail("xattrs_read", "error " + str(r) + at);
      void *gv = nullptr; size_t gl = 0; r = ext2fs_xattr_get(S.h[f], name.c_str(), &gv, &gl);
      auto it = M[f].find(name);
      if (it == M[f].end()) { if (r != EXT2_ET_EA_KEY_NOT_FOUND) { if (!r) ext2fs_free_mem(&gv); return Outcome::fail("get:phantom", "get of an absent name returned " + str(r) + at); } }
      else { if (r) return Outcome::fail("get:error", "error " + str(r) + at); bool same = gl == it->second.size() && (!gl || !memcmp(gv, it->second.data(), gl)); ext2fs_free_mem(&gv); if (!same) return Outcome::fail("get:value", "len " + str(gl) + " model " + str(it->second.size()) + at); }
      count("op:get"); break; }
    case 3: { Outcome o = compare_all(f, at); if (!o.ok) return o; count("op:iterate"); break; }
    case 4: { close_h(f); Outcome o = compare_all(f, at + " (after handle reopen)"); if (!o.ok) { o.tag = "reopen:" + o.tag; return o; } count("op:reopen-handle"); break; }
    case 5: {
      for (int i = 0; i < 3; i++) close_h(i);
      errcode_t r = ext2fs_close_free(&S.fs); S.fs = nullptr; if (r) return Outcome::fail("fs-close", "error " + str(r) + at);
      r = openfs(); if (r) return Outcome::fail("fs-reopen", "error " + str(r) + at);
      for (int i = 0; i < 3; i++) { Outcome o = compare_all(i, at + " (after fs reopen)"); if (!o.ok) { o.tag = "fs-reopen:" + o.tag; return o; } }
      count("op:reopen-fs"); break; }
    case 6: {  // make a second inode share f's extended attribute block (what the kernel's xattr block cache does for identical blocks): later changes of either inode must copy the block first
      int g = (f + 1 + (int)((op[3] < 0 ? -op[3] : op[3]) % 2)) % 3;
      bool big = false; for (auto &kv : M[f]) if ((long)kv.second.size() > bs - 256) big = true;   // values that may live in an EA inode: its blocks are charged per referencing inode, not modelled here
      if (!M[g].empty() || big) break;
      struct ext2_inode_large src, dst; memset(&src, 0, sizeof src); memset(&dst, 0, sizeof dst);
      close_h(f); close_h(g);
      if (ext2fs_read_inode_full(S.fs, ino[f], (struct ext2_inode *)&src, sizeof src) || ext2fs_read_inode_full(S.fs, ino[g], (struct ext2_inode *)&dst, sizeof dst)) break;
      blk64_t xb = ext2fs_file_acl_block(S.fs, (struct ext2_inode *)&src);
      if (!xb || ext2fs_file_acl_block(S.fs, (struct ext2_inode *)&dst)) break;
      {  // a block with a value kept in an EA inode is not shared here (the EA inode's blocks are charged to every referencing inode, which this harness does not model)
        std::vector<char> xbuf(bs); if (ext2fs_read_ext_attr3(S.fs, xb, xbuf.data(), ino[f])) break;
        bool ea_inode_ref = false; size_t o = sizeof(struct ext2_ext_attr_header);
        while (o + sizeof(struct ext2_ext_attr_entry) <= (size_t)bs) {
          struct ext2_ext_attr_entry *en = (struct ext2_ext_attr_entry *)(xbuf.data() + o);
          if (*(__u32 *)en == 0) break;
          if (en->e_value_inum) ea_inode_ref = true;
          o += (sizeof(struct ext2_ext_attr_entry) + en->e_name_len + 3) & ~3UL;
        }
        if (ea_inode_ref) break;
      }
      __u32 newcount = 0; errcode_t r = ext2fs_adjust_ea_refcount3(S.fs, xb, nullptr, 1, &newcount, ino[f]);
      if (r) break;
      ext2fs_file_acl_block_set(S.fs, (struct ext2_inode *)&dst, xb); ext2fs_iblk_add_blocks(S.fs, (struct ext2_inode *)&dst, 1);
      r = ext2fs_write_inode_full(S.fs, ino[g], (struct ext2_inode *)&dst, sizeof dst); if (r) return Outcome::fail("harness", "share: write inode " + str(r));
      // baseline of the second inode = what the library reads now; every pair must come from f's model
      r = get_h(g); if (r) return Outcome::fail("xattrs_read", "error " + str(r) + at + " (after sharing the block)");
      KV got; r = ext2fs_xattrs_iterate(S.h[g], iter_cb, &got); if (r) return Outcome::fail("iterate", "error " + str(r) + at);
      got.erase("system.data");
      for (auto &kv : got) { auto it = M[f].find(kv.first); if (it == M[f].end() || it->second != kv.second) return Outcome::fail("share:baseline", "shared block shows " + kv.first.substr(0, 40) + " which the owner does not have" + at); }
      M[g] = got; shared_block = true; count("op:share-xattr-block(refcount " + str(newcount) + ")"); break; }
    default: break;
    }
  }
  // final: fresh handles, inline content, consistency
  for (int i = 0; i < 3; i++) { close_h(i); Outcome o = compare_all(i, " [final " + std::string(fnames[i]) + "]"); if (!o.ok) { o.tag = "final:" + o.tag; return o; } close_h(i); }
  std::string inline_after; e = read_file(ino[2], &inline_after);
  if (e || inline_after != inline_before) return Outcome::fail("inline-content", "content of the inline-data file changed (err " + str(e) + ", len " + str(inline_after.size()) + " was " + str(inline_before.size()) + ")");
  // placements reached (for the non-triviality rule): in-inode when isize>128 and small values exist; block when i_file_acl != 0; ea_inode when a value > bs is stored
  for (int i = 0; i < 3; i++) { struct ext2_inode in; ext2fs_read_inode(S.fs, ino[i], &in); int p = 0; if (ext2fs_file_acl_block(S.fs, &in)) p |= 2; for (auto &kv : M[i]) { if ((long)kv.second.size() > bs) p |= 4; else if (isize > 128) p |= 1; } int n = (p & 1) + ((p >> 1) & 1) + ((p >> 2) & 1); if (n > placements_seen) placements_seen = n; }
  e = ext2fs_close_free(&S.fs); S.fs = nullptr; if (e) return Outcome::fail("fs-close", "final " + str(e));
  std::string out; int rc = run_fsck(img, &out);
  if (rc != 0) {
    std::string first; size_t p = 0; while (p < out.size()) { size_t q = out.find('\n', p); std::string l = out.substr(p, q == std::string::npos ? q : q - p); if (l.rfind("Pass", 0) != 0 && l.rfind("e2fsck", 0) != 0 && !l.empty() && l.find("could be shorter") == std::string::npos && l.find("could be narrower") == std::string::npos) { first = l; break; } if (q == std::string::npos) break; p = q + 1; }
    std::string cls; for (char ch : first) { if (isdigit((unsigned char)ch)) { if (cls.empty() || cls.back() != '#') cls += '#'; } else cls += ch; }
    return Outcome::fail(std::string(errors ? "fsck-after-error:" : "fsck:") + cls.substr(0, 70), "e2fsck -fn exit " + str(rc) + "\n" + out);
  }
  // independent well-formedness (order, entry/block hashes, EA-inode value hashes) judged from the on-disk format, for images that went through the EA-inode or block placement
  if (const char *ver = getenv("PBT_VERIFY")) {
    if ((placements_seen >= 1 && (replaced_across || placements_seen >= 2)) || getenv("PBT_VERIFY_ALWAYS")) {
      std::string cmd = std::string(ver) + " " + img + " 2>&1"; std::string vout; FILE *p = popen(cmd.c_str(), "r");
      if (p) { char b[512]; while (fgets(b, sizeof b, p)) vout += b; int st = pclose(p);
        if (st != 0) { std::string first = vout.substr(0, vout.find('\n')); std::string cls; for (char ch : first) { if (isdigit((unsigned char)ch) || (ch >= 'a' && ch <= 'f' && !cls.empty() && cls.back() == '#')) { if (cls.empty() || cls.back() != '#') cls += '#'; } else cls += ch; }
          return Outcome::fail("format:" + cls.substr(0, 60), "independent xattr verification failed:\n" + vout); } } } }
  Outcome o; o.nontrivial = placements_seen >= 2 || replaced_across || shared_block; return o;
}
rc::Gen<Case> genCase() {
  using namespace rc;
  return gen::exec([]() {
    Case c; c.cfg = {*range<i64>(0, 1000), *range<i64>(0, 1 << 20)};
    int nops = *range<int>(2, 40);
    int nnames = *range<int>(1, 12);
    for (int i = 0; i < nops; i++) {
      int k = *gen::weightedElement<int>({{14, 0}, {5, 1}, {4, 2}, {2, 3}, {2, 4}, {1, 5}, {2, 6}});
      c.ops.push_back({k, *gen::weightedElement<i64>({{3, 0}, {1, 1}, {2, 2}}), *range<i64>(0, nnames), *range<i64>(0, 1 << 16), *range<i64>(0, 1 << 20)});
    }
    return c;
  });
}
}  // namespace
int main(int argc, char **argv) { return pbt::main_(argc, argv, "C15 xattrs == map model", genCase, body); }
