// C14(a): CRC primitives == bitwise mathematical definitions, for every length/alignment/seed; plus the concatenation law.
// cfg: [which(0 crc32c_le, 1 crc16, 2 crc32_be), seed, align(0..15), len, content seed, split]
#include "pbt.h"
extern "C" {
#include "ext2fs/ext2fs.h"
#include "ext2fs/crc16.h"
}
using namespace pbt;
namespace {
uint32_t ref_crc32c(uint32_t crc, const uint8_t *p, size_t n) { for (size_t i = 0; i < n; i++) { crc ^= p[i]; for (int k = 0; k < 8; k++) crc = (crc >> 1) ^ (0x82F63B78u & -(crc & 1)); } return crc; }
uint16_t ref_crc16(uint16_t crc, const uint8_t *p, size_t n) { for (size_t i = 0; i < n; i++) { crc ^= p[i]; for (int k = 0; k < 8; k++) crc = (crc >> 1) ^ (0xA001 & -(crc & 1)); } return crc; }
uint32_t ref_crc32_be(uint32_t crc, const uint8_t *p, size_t n) { for (size_t i = 0; i < n; i++) { crc ^= (uint32_t)p[i] << 24; for (int k = 0; k < 8; k++) crc = (crc << 1) ^ ((crc & 0x80000000u) ? 0x04C11DB7u : 0); } return crc; }
std::string str(i64 v) { return std::to_string(v); }
Outcome body(const Case &c) {
  if (c.cfg.size() < 6) return Outcome();
  int which = (int)(c.cfg[0] % 3); uint32_t seed = (uint32_t)c.cfg[1]; size_t align = (size_t)(c.cfg[2] & 15), len = (size_t)c.cfg[3];
  uint64_t cs = (uint64_t)c.cfg[4]; size_t split = len ? (size_t)c.cfg[5] % (len + 1) : 0;
  std::vector<uint8_t> raw(len + 64);
  uint8_t *p = (uint8_t *)(((uintptr_t)raw.data() + 15) & ~(uintptr_t)15) + align;
  int mode = (int)(cs & 3);
  for (size_t i = 0; i < len; i++) { cs = cs * 6364136223846793005ULL + 1442695040888963407ULL; p[i] = mode == 0 ? 0 : mode == 1 ? 0xff : (uint8_t)(cs >> 33); }
  uint32_t got, exp, g2;
  const char *nm;
  if (which == 0) { nm = "crc32c_le"; got = ext2fs_crc32c_le(seed, p, len); exp = ref_crc32c(seed, p, len); g2 = ext2fs_crc32c_le(ext2fs_crc32c_le(seed, p, split), p + split, len - split); }
  else if (which == 1) { nm = "crc16"; seed &= 0xffff; got = ext2fs_crc16(seed, p, (unsigned)len) & 0xffff; exp = ref_crc16((uint16_t)seed, p, len); g2 = ext2fs_crc16(ext2fs_crc16(seed, p, (unsigned)split), p + split, (unsigned)(len - split)) & 0xffff; }
  else { nm = "crc32_be"; got = ext2fs_crc32_be(seed, p, len); exp = ref_crc32_be(seed, p, len); g2 = ext2fs_crc32_be(ext2fs_crc32_be(seed, p, split), p + split, len - split); }
  count(std::string("crc:") + nm); count(len == 0 ? "len:0" : len < 8 ? "len:1-7" : len < 64 ? "len:8-63" : len < 4096 ? "len:64-4095" : "len:4096+");
  if (got != exp) return Outcome::fail(std::string("crc:") + nm, "len " + str(len) + " align " + str(align) + " seed " + str(seed) + ": got " + str(got) + " expected " + str(exp));
  if (g2 != exp) return Outcome::fail(std::string("crc-concat:") + nm, "len " + str(len) + " split " + str(split));
  Outcome o; o.nontrivial = len > 0; return o;
}
rc::Gen<Case> genCase() {
  using namespace rc;
  return gen::exec([]() {
    Case c;
    i64 len = *gen::weightedOneOf<i64>({{4, range<i64>(0, 80)}, {3, range<i64>(80, 5000)}, {1, range<i64>(5000, 70001)}, {2, gen::element<i64>(0, 1, 3, 4, 7, 8, 15, 16, 31, 32, 63, 64, 65, 255, 256, 1020, 1024, 4092, 4096, 65536)}});
    c.cfg = {*range<i64>(0, 3), *gen::weightedOneOf<i64>({{1, gen::element<i64>(0, 0xffffffffLL, 0xffff)}, {2, range<i64>(0, 0x100000000LL)}}), *range<i64>(0, 16), len, *range<i64>(0, 1LL << 40), *range<i64>(0, 70001)};
    return c;
  });
}
}  // namespace
int main(int argc, char **argv) { return pbt::main_(argc, argv, "C14a CRC primitives == definitions", genCase, body); }
