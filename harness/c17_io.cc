// C17 (G1): unix_io channel == byte-array model, with deterministic write-fault injection.
// cfg: [cache(0 cached,1 cache=off,2 writethrough), bounce, direct, offset_kb, undo, blksize_log(0..6 => 1k..64k), handler, base_blk]
// ops: [kind, a, b, c]
#include "pbt.h"
#include <cerrno>
#include <sys/syscall.h>
#include <sys/stat.h>
extern "C" {
#include "ext2fs/ext2fs.h"
}
using namespace pbt;

// ---------------- syscall interposition (bad-region fault model) ----------------
namespace fault {
int devfd = -1;           // fd of the device file as opened by the library
long lo = 0, hi = 0;      // failing byte range of the device file
int remaining = 0;        // number of channel ops for which the region stays bad
int mode = 0;             // 0 EIO, 1 ENOSPC
long injected = 0, fsyncs = 0;
std::string devpath;
bool is_dev(int fd) {
  char l[64], p[512];
  snprintf(l, sizeof l, "/proc/self/fd/%d", fd);
  ssize_t n = readlink(l, p, sizeof p - 1);
  if (n < 0) return false;
  p[n] = 0;
  return devpath == p;
}
bool hit(int fd, long off, long len) {
  if (remaining <= 0 || devpath.empty() || !is_dev(fd)) return false;
  return off < hi && off + len > lo;
}
}  // namespace fault
extern "C" ssize_t pwrite64(int fd, const void *buf, size_t n, off64_t off) {
  if (fault::hit(fd, off, n)) { fault::injected++; errno = fault::mode ? ENOSPC : EIO; return -1; }
  return syscall(SYS_pwrite64, fd, buf, n, off);
}
extern "C" ssize_t pwrite(int fd, const void *buf, size_t n, off_t off) { return pwrite64(fd, buf, n, off); }
extern "C" ssize_t write(int fd, const void *buf, size_t n) {
  if (fd > 2 && fault::remaining > 0) {
    off_t off = lseek(fd, 0, SEEK_CUR);
    if (off >= 0 && fault::hit(fd, off, n)) { fault::injected++; errno = fault::mode ? ENOSPC : EIO; return -1; }
  }
  return syscall(SYS_write, fd, buf, n);
}
extern "C" int fsync(int fd) { fault::fsyncs++; return 0; }      // durability is checked through a second fd, not by waiting for the disk
extern "C" int fdatasync(int fd) { fault::fsyncs++; return 0; }

namespace {
const long DEV = 384 * 1024;  // bytes of device addressed through the channel
const long SLACK = 192 * 1024;  // never addressed; lets whole-block bounce/undo reads near the end succeed when offset is not block aligned
std::string str(i64 v) { return std::to_string(v); }
int g_cb_errors = 0;
errcode_t write_err_cb(io_channel, unsigned long, int, const void *, size_t, int, errcode_t err) { g_cb_errors++; return err; }

struct Chan {
  io_channel io = nullptr;
  ~Chan() { if (io) io_channel_close(io); }
};

unsigned char pat(uint64_t seed, long i) { uint64_t x = seed * 0x9E3779B97F4A7C15ULL + (uint64_t)i * 0xBF58476D1CE4E5B9ULL; x ^= x >> 29; return (unsigned char)(x | 1); }

Outcome body(const Case &c) {
  if (c.cfg.size() < 8) return Outcome();
  int cachemode = (int)c.cfg[0], bounce = (int)c.cfg[1], direct = (int)c.cfg[2], undo = (int)c.cfg[4], handler = (int)c.cfg[6];
  long offset = (long)c.cfg[3] * 1024; int bslog = (int)(c.cfg[5] % 7); long base = (long)c.cfg[7];
  const char *dir = getenv("PBT_DIR");
  std::string d = dir ? dir : "/dev/shm";
  std::string path = d + "/c17dev." + str(getpid()), upath = d + "/c17undo." + str(getpid());
  unlink(upath.c_str());
  // device file: [0,offset) sentinel 0xEE, then DEV bytes of zeros
  std::vector<int> model(DEV, 0);  // -1 unknown
  {
    int fd = open(path.c_str(), O_RDWR | O_CREAT | O_TRUNC, 0644);
    if (fd < 0) return Outcome::fail("harness", "cannot create device file");
    std::vector<unsigned char> z(offset + DEV + SLACK, 0); memset(z.data(), 0xEE, offset); memset(z.data() + offset + DEV, 0xDD, SLACK);
    syscall(SYS_pwrite64, fd, z.data(), z.size(), 0L); close(fd);
  }
  fault::devpath = path; fault::remaining = 0; fault::injected = 0; g_cb_errors = 0;
  int rfd = open(path.c_str(), O_RDONLY);
  struct Closer { int fd; std::string p, u; ~Closer() { close(fd); unlink(p.c_str()); unlink(u.c_str()); fault::devpath.clear(); } } closer{rfd, path, upath};
  Chan ch;
  long bs = 1024L << bslog;
  std::vector<std::pair<long, long>> pending;  // byte ranges written since last successful flush
  auto open_chan = [&]() -> errcode_t {
    int flags = IO_FLAG_RW | (bounce ? IO_FLAG_FORCE_BOUNCE : 0) | (direct ? IO_FLAG_DIRECT_IO : 0);
    errcode_t r;
    if (undo) {
      unlink(upath.c_str());
      set_undo_io_backing_manager(unix_io_manager); set_undo_io_backup_file((char *)upath.c_str());
      r = undo_io_manager->open(path.c_str(), flags, &ch.io);
    } else r = unix_io_manager->open(path.c_str(), flags, &ch.io);
    if (r) return r;
    if (offset) { std::string o = str(offset); r = io_channel_set_options(ch.io, ("offset=" + o).c_str()); if (r) return r; }
    if (cachemode == 1) { r = io_channel_set_options(ch.io, "cache=off"); if (r && !undo) return r; }
    if (cachemode == 2) ch.io->flags |= CHANNEL_FLAGS_WRITETHROUGH;
    if (handler) ch.io->write_error = write_err_cb;
    return io_channel_set_blksize(ch.io, (int)bs);
  };
  errcode_t r = open_chan();
  if (r) { if (direct) { count("skip:direct-open-failed"); return Outcome(); } return Outcome::fail("open", "error " + str(r)); }
  count(std::string("cfg:cache") + str(cachemode) + (bounce ? ":bounce" : "") + (direct ? ":direct" : "") + (undo ? ":undo" : "") + (offset ? ":offset" : ""));
  bool crosspath = false; int nfaults = 0; bool reported_any = false;
  // which path last wrote each 1k unit: 0 none, 1 cached blk write, 2 direct blk write, 3 byte write, 4 zeroout/discard
  std::vector<char> lastpath(DEV / 1024, 0), cachedby(DEV / 1024, 0);
  auto mark_unknown = [&](long lo, long hi) { if (lo < 0) lo = 0; if (hi > DEV) hi = DEV; for (long i = lo; i < hi; i++) model[i] = -1; };
  auto reported = [&](long lo, long hi) { reported_any = true; mark_unknown(lo, hi); for (auto &p : pending) mark_unknown(p.first, p.second); };
  auto check_file = [&](const char *when, int step) -> std::string {
    std::vector<unsigned char> buf(offset + DEV + SLACK);
    ssize_t n = pread(rfd, buf.data(), buf.size(), 0);
    if (n < (ssize_t)(offset + DEV + SLACK)) return std::string("device file shrank ") + when;
    for (long i = offset + DEV; i < offset + DEV + SLACK; i++) if (buf[i] != 0xDD) return "byte " + str(i - offset) + " beyond the addressed range was modified (" + when + " step " + str(step) + ")";
    for (long i = 0; i < offset; i++) if (buf[i] != 0xEE) return "byte " + str(i) + " below the channel offset was modified (" + when + " step " + str(step) + ")";
    for (long i = 0; i < DEV; i++) if (model[i] >= 0 && buf[offset + i] != model[i]) return "after " + std::string(when) + " at step " + str(step) + ": file byte " + str(i) + " (blk " + str(i / bs) + ") is " + str(buf[offset + i]) + " model " + str(model[i]);
    return "";
  };
  int step = 0;
  for (auto &op : c.ops) {
    step++;
    if (op.size() < 4) continue;
    int k = (int)op[0]; i64 a = op[1] < 0 ? -op[1] : op[1], b = op[2], x = op[3];
    long nblk = DEV / bs;
    long blk = (base % nblk + a % 24) % nblk;
    int cb_before = g_cb_errors; long inj_before = fault::injected;
    if (fault::remaining > 0 && k != 9) fault::remaining--;
    std::string at = " step " + str(step) + " bs=" + str(bs) + " blk=" + str(blk);
    switch (k) {
    case 0: {  // read
      int cnt; long bytes;
      if (b >= 0) { cnt = (int)(1 + b % 12); if (blk + cnt > nblk) cnt = (int)(nblk - blk); bytes = cnt * bs; }
      else { bytes = 1 + (-b) % (3 * bs); if (blk * bs + bytes > DEV) bytes = DEV - blk * bs; cnt = (int)-bytes; if (bytes == bs) cnt = 1; }
      std::vector<unsigned char> raw(bytes + 8192 + 1, 0x5A);
      unsigned char *buf = (unsigned char *)(((uintptr_t)raw.data() + 4095) & ~(uintptr_t)4095) + ((x & 1) ? 1 : 0);
      errcode_t e = io_channel_read_blk64(ch.io, blk, cnt, buf);
      if (e) { if (fault::injected > inj_before || g_cb_errors > cb_before) { reported(0, 0); break; } return Outcome::fail("read:error", "read returned " + str(e) + " without an injected fault" + at); }
      if (g_cb_errors > cb_before) reported(0, 0);
      for (long i = 0; i < bytes; i++) {
        int mv = model[blk * bs + i];
        if (mv >= 0 && buf[i] != mv) {
          long u = (blk * bs + i) / 1024;
          return Outcome::fail(std::string("stale-read:") + (lastpath[u] == 2 ? "after-direct-write" : lastpath[u] == 3 ? "after-write_byte" : lastpath[u] == 4 ? "after-zeroout-discard" : lastpath[u] == 1 ? "after-cached-write" : "other"),
                               "read byte " + str(blk * bs + i) + " is " + str(buf[i]) + " model " + str(mv) + " cnt=" + str(cnt) + at);
        }
      }
      for (long u = blk * bs / 1024; u < (blk * bs + bytes + 1023) / 1024 && u < (long)lastpath.size(); u++) { if (cachedby[u] && lastpath[u] && cachedby[u] != lastpath[u]) crosspath = true; if (cnt > 0 && cnt <= 4) cachedby[u] = cachedby[u] ? cachedby[u] : 1; }
      count("op:read"); break; }
    case 1: {  // write blocks
      int cnt; long bytes;
      if (b >= 0) { cnt = (int)(1 + b % 12); if (blk + cnt > nblk) cnt = (int)(nblk - blk); bytes = cnt * bs; }
      else { bytes = 1 + (-b) % (3 * bs); if (blk * bs + bytes > DEV) bytes = DEV - blk * bs; cnt = (int)-bytes; if (bytes == bs) cnt = 1; }
      std::vector<unsigned char> raw(bytes + 8192 + 1);
      unsigned char *buf = (unsigned char *)(((uintptr_t)raw.data() + 4095) & ~(uintptr_t)4095) + ((x & 1) ? 1 : 0);
      for (long i = 0; i < bytes; i++) buf[i] = pat((uint64_t)x + step * 131, i);
      errcode_t e = io_channel_write_blk64(ch.io, blk, cnt, buf);
      pending.push_back({blk * bs, blk * bs + bytes});
      if (e || g_cb_errors > cb_before) {
        if (e && fault::injected == inj_before && g_cb_errors == cb_before) return Outcome::fail("write:error", "write returned " + str(e) + " without an injected fault" + at);
        reported(blk * bs, blk * bs + bytes);
      } else for (long i = 0; i < bytes; i++) model[blk * bs + i] = buf[i];
      bool directw = (cnt < 0 || cnt > 4 || cachemode == 1);
      for (long u = blk * bs / 1024; u < (blk * bs + bytes + 1023) / 1024; u++) { lastpath[u] = directw ? 2 : 1; if (!directw) cachedby[u] = 1; }
      count(directw ? "op:write-direct" : "op:write-cached"); break; }
    case 2: {  // write_byte
      if (ch.io->align != 0) break;
      long off = (blk * bs + (x % bs)) % DEV; long sz = 1 + (b < 0 ? -b : b) % 3000; if (off + sz > DEV) sz = DEV - off;
      std::vector<unsigned char> buf(sz);
      for (long i = 0; i < sz; i++) buf[i] = pat((uint64_t)x + step * 977, i);
      errcode_t e = io_channel_write_byte(ch.io, off, (int)sz, buf.data());
      if (e == EXT2_ET_UNIMPLEMENTED) break;
      pending.push_back({off, off + sz});
      if (e || g_cb_errors > cb_before) {
        if (e && fault::injected == inj_before && g_cb_errors == cb_before) return Outcome::fail("write_byte:error", "returned " + str(e) + " without an injected fault" + at);
        reported(off, off + sz);
      } else for (long i = 0; i < sz; i++) model[off + i] = buf[i];
      for (long u = off / 1024; u < (off + sz + 1023) / 1024; u++) lastpath[u] = 3;
      count("op:write_byte"); break; }
    case 3: case 4: {  // zeroout / discard
      long cnt = 1 + (b < 0 ? -b : b) % 12; if (blk + cnt > nblk) cnt = nblk - blk;
      errcode_t e = k == 3 ? io_channel_zeroout(ch.io, blk, cnt) : io_channel_discard(ch.io, blk, cnt);
      if (e == EXT2_ET_UNIMPLEMENTED || e == EXT2_ET_OP_NOT_SUPPORTED) { count("op:zero-unimplemented"); break; }
      if (e) { reported(blk * bs, (blk + cnt) * bs); break; }
      if (k == 4 && !(ch.io->flags & CHANNEL_FLAGS_DISCARD_ZEROES)) mark_unknown(blk * bs, (blk + cnt) * bs);
      else for (long i = blk * bs; i < (blk + cnt) * bs; i++) model[i] = 0;
      for (long u = blk * bs / 1024; u < (blk + cnt) * bs / 1024; u++) lastpath[u] = 4;
      count(k == 3 ? "op:zeroout" : "op:discard"); break; }
    case 5: io_channel_cache_readahead(ch.io, blk, 1 + (b < 0 ? -b : b) % 16); count("op:readahead"); break;
    case 6: {
      long nbs = 1024L << ((a + x) % 7);
      errcode_t e = io_channel_set_blksize(ch.io, (int)nbs);
      if (e || g_cb_errors > cb_before) { if (fault::injected == inj_before && g_cb_errors == cb_before) return Outcome::fail("set_blksize:error", "returned " + str(e) + at); reported(0, 0); if (e) break; }
      bs = nbs; std::fill(cachedby.begin(), cachedby.end(), 0); count("op:set_blksize"); break; }
    case 7: {
      errcode_t e = io_channel_flush(ch.io);
      if (e || g_cb_errors > cb_before) { if (fault::injected == inj_before && g_cb_errors == cb_before) return Outcome::fail("flush:error", "returned " + str(e) + at); reported(0, 0); }
      if (!e) { pending.clear(); std::string w = check_file("flush", step); if (!w.empty()) return Outcome::fail(reported_any || nfaults ? "lost-write:after-fault" : "lost-write", w); }
      count("op:flush"); break; }
    case 8: {
      errcode_t e = io_channel_close(ch.io); ch.io = nullptr;
      if (e || g_cb_errors > cb_before) { if (fault::injected == inj_before && g_cb_errors == cb_before) return Outcome::fail("close:error", "returned " + str(e) + at); reported(0, 0); }
      if (!e) { pending.clear(); std::string w = check_file("close", step); if (!w.empty()) return Outcome::fail(reported_any || nfaults ? "lost-write:after-fault" : "lost-write", w); }
      else pending.clear();  // the channel is gone: whatever was pending and reported is unknown (already marked)
      fault::remaining = 0;
      errcode_t r2 = open_chan(); if (r2) return Outcome::fail("reopen", "error " + str(r2));
      std::fill(cachedby.begin(), cachedby.end(), 0); count("op:reopen"); break; }
    case 9: {  // arm a bad region for the next few channel ops (never under undo)
      if (undo) break;
      long lo = ((base % nblk + a % 24) % nblk) * bs; long len = (1 + (b < 0 ? -b : b) % 6) * bs;
      if (x & 32) { lo = 0; len = DEV; }  // the whole device fails
      fault::lo = offset + lo; fault::hi = offset + lo + len; fault::remaining = 1 + (int)(x % 6); fault::mode = (int)((x >> 4) & 1); nfaults++;
      count("op:arm-fault"); break; }
    default: break;
    }
  }
  fault::remaining = 0;
  int cb_before = g_cb_errors;
  errcode_t e = io_channel_close(ch.io); ch.io = nullptr;
  if (!e && g_cb_errors == cb_before) { std::string w = check_file("final close", step); if (!w.empty()) return Outcome::fail(reported_any || nfaults ? "lost-write:after-fault" : "lost-write", w); }
  if (fault::injected) count("case:fault-injected");
  Outcome o; o.nontrivial = crosspath || fault::injected > 0; return o;
}

rc::Gen<Case> genCase() {
  using namespace rc;
  return gen::exec([]() {
    Case c;
    int cachemode = *gen::weightedElement<int>({{5, 0}, {1, 1}, {2, 2}});
    int bounce = *gen::weightedElement<int>({{4, 0}, {1, 1}});
    int direct = *gen::weightedElement<int>({{6, 0}, {1, 1}});
    i64 offkb = *gen::weightedElement<i64>({{4, 0}, {1, 3}, {1, 64}});
    int undo = *gen::weightedElement<int>({{7, 0}, {1, 1}});
    int bslog = *gen::weightedElement<int>({{4, 0}, {2, 2}, {1, 1}, {1, 6}});
    int handler = *gen::element(0, 1);
    i64 base = *range<i64>(0, 300);
    c.cfg = {cachemode, bounce, direct, offkb, undo, bslog, handler, base};
    int nops = *range<int>(2, 50);
    bool faults = *gen::weightedElement<bool>({{2, false}, {1, true}});
    for (int i = 0; i < nops; i++) {
      int k = *gen::weightedElement<int>({{12, 0}, {12, 1}, {4, 2}, {3, 3}, {2, 4}, {1, 5}, {1, 6}, {3, 7}, {1, 8}, {faults ? 3 : 0, 9}});
      i64 a = *range<i64>(0, 24);
      i64 b = *gen::weightedOneOf<i64>({{7, range<i64>(0, 4)}, {3, range<i64>(4, 12)}, {2, range<i64>(-3 * 65536, 0)}, {1, gen::element<i64>(-1024, -4096, -1, -512)}});
      i64 x = *range<i64>(0, 1 << 20);
      c.ops.push_back({k, a, b, x});
    }
    return c;
  });
}
}  // namespace
int main(int argc, char **argv) { return pbt::main_(argc, argv, "C17 io channel == byte model", genCase, body); }
