// C16: every bitmap backend (bitarray, rbtree, legacy 32-bit) == std::set model, in lockstep.
// cfg: [kind(0 block,1 inode), cluster_bits, start(0|1), nbits (end-start+1), padbytes]
// ops: see switch below.  Positions are stored as *cluster offsets from start*; sub-block offsets in a separate arg.
#include "pbt.h"
#include <set>
#include <cerrno>
extern "C" {
#include "ext2fs/ext2fs.h"
}
using namespace pbt;

namespace {
struct Fs {
  struct struct_ext2_filsys fs;
  struct ext2_super_block sb;
  Fs(int cbits, bool is64) {
    memset(&fs, 0, sizeof fs); memset(&sb, 0, sizeof sb);
    fs.magic = EXT2_ET_MAGIC_EXT2FS_FILSYS; fs.super = &sb; fs.blocksize = 1024;
    fs.flags = is64 ? EXT2_FLAG_64BITS : 0; fs.cluster_ratio_bits = cbits;
  }
};
struct Bm {
  ext2fs_generic_bitmap b = nullptr;
  const char *name;
  ~Bm() { if (b) ext2fs_free_generic_bmap(b); }
};
std::string str(i64 v) { return std::to_string(v); }

Outcome body(const Case &c) {
  if (c.cfg.size() < 5) return Outcome();
  int kind = (int)c.cfg[0], cbits = (int)c.cfg[1];
  uint64_t start = (uint64_t)c.cfg[2], nbits = (uint64_t)c.cfg[3], pad = (uint64_t)c.cfg[4];
  if (kind != 0) cbits = 0;
  if (nbits < 1) nbits = 1;
  uint64_t end = start + nbits - 1;
  // callers always have (real_end - start + 1) % 8 == 0 (clusters/inodes per group are multiples of 8)
  uint64_t real_end = start + ((nbits + 7) / 8 + pad) * 8 - 1;
  errcode_t magic64 = kind == 0 ? EXT2_ET_MAGIC_BLOCK_BITMAP64 : EXT2_ET_MAGIC_INODE_BITMAP64;
  errcode_t magic32 = kind == 0 ? EXT2_ET_MAGIC_BLOCK_BITMAP : EXT2_ET_MAGIC_INODE_BITMAP;
  Fs fs64(cbits, true), fs32(0, false);
  Bm bm[3];
  int nb = 0;
  bm[nb].name = "bitarray";
  if (ext2fs_alloc_generic_bmap(&fs64.fs, magic64, EXT2FS_BMAP64_BITARRAY, start, end, real_end, "ba", &bm[nb].b)) return Outcome::fail("alloc", "bitarray");
  nb++;
  bm[nb].name = "rbtree";
  if (ext2fs_alloc_generic_bmap(&fs64.fs, magic64, EXT2FS_BMAP64_RBTREE, start, end, real_end, "rb", &bm[nb].b)) return Outcome::fail("alloc", "rbtree");
  nb++;
  if (cbits == 0) {
    bm[nb].name = "legacy32";
    if (ext2fs_make_generic_bitmap(magic32, &fs32.fs, (__u32)start, (__u32)end, (__u32)real_end, "l32", 0, &bm[nb].b)) return Outcome::fail("alloc", "legacy32");
    nb++;
  }
  std::set<uint64_t> m;  // set of cluster numbers in [start,end]
  const uint64_t cmask = (1ULL << cbits) - 1;
  int structural = 0; bool queried_after = false;
  count(std::string("cfg:kind") + str(kind) + ":cbits" + str(cbits));
  auto pos = [&](i64 off) -> uint64_t { uint64_t n = end - start + 1; return start + ((uint64_t)(off < 0 ? -off : off) % n); };
  int step = 0;
  for (auto &op : c.ops) {
    step++;
    if (op.size() < 4) continue;
    int k = (int)op[0];
    uint64_t a = pos(op[1]);                 // cluster number
    uint64_t sub = (uint64_t)op[3] & cmask;  // block offset inside the cluster
    uint64_t blk = (a << cbits) | sub;
    uint64_t n = (uint64_t)(op[2] < 1 ? 1 : op[2]);
    if (a + n - 1 > end) n = end - a + 1;    // cluster count within range
    for (int i = 0; i < nb; i++) {
      ext2fs_generic_bitmap b = bm[i].b;
      std::string who = std::string(bm[i].name) + ":";
      std::string at = " step " + str(step) + " a=" + str(a) + " n=" + str(n) + " [" + str(start) + "," + str(end) + "] cbits=" + str(cbits);
      switch (k) {
      case 0: { int r = ext2fs_mark_generic_bmap(b, blk); int e = m.count(a); if (!!r != !!e) return Outcome::fail(who + "mark", "returned " + str(r) + " expected prev bit " + str(e) + at); break; }
      case 1: { int r = ext2fs_unmark_generic_bmap(b, blk); int e = m.count(a); if (!!r != !!e) return Outcome::fail(who + "unmark", "returned " + str(r) + " expected prev bit " + str(e) + at); break; }
      case 2: { int r = ext2fs_test_generic_bmap(b, blk); int e = m.count(a); if (!!r != !!e) return Outcome::fail(who + "test", "returned " + str(r) + " expected " + str(e) + at); break; }
      case 3: case 4: case 5: {
        if (kind != 0) break;
        // block-unit range covering clusters [a, a+n)
        uint64_t b0 = blk; uint64_t bl = ((a + n - 1) << cbits) | (((uint64_t)op[3] >> 8) & cmask);
        unsigned num = (unsigned)(bl - b0 + 1);
        if (bl < b0) { num = 1; }
        uint64_t c0 = b0 >> cbits, c1 = (b0 + num - 1) >> cbits;
        if (k == 3) ext2fs_mark_block_bitmap_range2(b, b0, num);
        else if (k == 4) ext2fs_unmark_block_bitmap_range2(b, b0, num);
        else {
          int r = ext2fs_test_block_bitmap_range2(b, b0, num); bool clear = true;
          for (uint64_t x = c0; x <= c1; x++) if (m.count(x)) { clear = false; break; }
          if (!!r != clear) return Outcome::fail(who + "test_range", "returned " + str(r) + " expected all-clear=" + str(clear) + " num=" + str(num) + at);
        }
        break; }
      case 6: {  // get_range: byte aligned relative start, in cluster units
        uint64_t s = start + ((a - start) & ~7ULL); uint64_t nn = n; if (s + nn - 1 > end) nn = end - s + 1; if (nn > 4096) nn = 4096;
        std::vector<unsigned char> buf((nn + 7) / 8 + 8, 0xA5);
        errcode_t r = ext2fs_get_generic_bmap_range(b, s, (unsigned)nn, buf.data());
        if (r) return Outcome::fail(who + "get_range", "error " + str(r) + at);
        for (uint64_t x = 0; x < nn; x++) { int bit = (buf[x >> 3] >> (x & 7)) & 1; if (bit != (int)m.count(s + x)) return Outcome::fail(who + (m.empty() ? "get_range:empty" : "get_range"), "bit " + str(s + x) + " is " + str(bit) + at); }
        if (buf[(nn + 7) / 8] != 0xA5) return Outcome::fail(who + "get_range", "wrote beyond the output buffer" + at);
        break; }
      case 7: {  // set_range: like every caller, whole bytes (num % 8 == 0), possibly reaching into the padding up to real_end
        uint64_t s = start + ((a - start) & ~7ULL); uint64_t nn = (n + 7) & ~7ULL; if (nn > 4096) nn = 4096; if (s + nn - 1 > real_end) nn = real_end - s + 1;
        std::vector<unsigned char> buf((nn + 7) / 8, 0);
        uint64_t seed = (uint64_t)op[3] * 0x9E3779B97F4A7C15ULL + 1; int mode = (int)(((uint64_t)op[3] >> 4) % 4);
        for (uint64_t x = 0; x < nn; x++) { seed ^= seed << 13; seed ^= seed >> 7; seed ^= seed << 17; int bit = mode == 0 ? 0 : mode == 1 ? 1 : mode == 2 ? (int)(seed & 1) : (int)((x / 5) & 1); if (bit) buf[x >> 3] |= 1 << (x & 7); }
        errcode_t r = ext2fs_set_generic_bmap_range(b, s, (unsigned)nn, buf.data());
        if (r) return Outcome::fail(who + "set_range", "error " + str(r) + at);
        break; }
      case 8: case 9: {
        uint64_t b0 = blk, b1 = ((a + n - 1) << cbits) | (((uint64_t)op[3] >> 8) & cmask);
        if (b1 < b0) b1 = b0;
        __u64 out = ~0ULL; errcode_t r = k == 8 ? ext2fs_find_first_zero_generic_bmap(b, b0, b1, &out) : ext2fs_find_first_set_generic_bmap(b, b0, b1, &out);
        uint64_t e = ~0ULL;
        for (uint64_t x = b0 >> cbits; x <= (b1 >> cbits); x++) if ((k == 8) != (bool)m.count(x)) { e = x << cbits; if (e < b0) e = b0; break; }
        const char *nm = k == 8 ? "find_first_zero" : "find_first_set";
        if (e == ~0ULL) { if (r != ENOENT) return Outcome::fail(who + nm, "returned " + str(r) + " out=" + str(out) + " expected ENOENT" + at); }
        else if (r != 0 || out != e) return Outcome::fail(who + nm + (m.empty() ? ":empty" : ""), "returned " + str(r) + " out=" + str(out) + " expected " + str(e) + " range [" + str(b0) + "," + str(b1) + "]" + at);
        break; }
      case 10: {  // copy: the copy must compare equal and answer like the model; then it replaces the original
        ext2fs_generic_bitmap cp = nullptr; errcode_t r = ext2fs_copy_generic_bmap(b, &cp);
        if (r || !cp) return Outcome::fail(who + "copy", "error " + str(r) + at);
        errcode_t q = ext2fs_compare_generic_bmap(12345, b, cp);
        if (q) { ext2fs_free_generic_bmap(cp); return Outcome::fail(who + "compare", "copy compares unequal (" + str(q) + ")" + at); }
        ext2fs_free_generic_bmap(b); bm[i].b = cp;
        break; }
      case 11: {  // compare must see a one-bit difference at cluster a
        ext2fs_generic_bitmap cp = nullptr; errcode_t r = ext2fs_copy_generic_bmap(b, &cp);
        if (r || !cp) return Outcome::fail(who + "copy", "error " + str(r) + at);
        if (m.count(a)) ext2fs_unmark_generic_bmap(cp, blk); else ext2fs_mark_generic_bmap(cp, blk);
        errcode_t q = ext2fs_compare_generic_bmap(12345, b, cp);
        ext2fs_free_generic_bmap(cp);
        if (q != 12345) return Outcome::fail(who + "compare" + (a == end ? ":lastbit" : (cbits ? ":cluster" : "")), "bitmaps differing in bit " + str(a) + " compare as " + str(q) + at);
        break; }
      case 12: ext2fs_clear_generic_bmap(b); break;
      case 13: {  // resize: new end / real_end (cluster units)
        uint64_t nbits2 = 1 + ((uint64_t)(op[2] < 0 ? -op[2] : op[2]) % 20000); uint64_t ne = start + nbits2 - 1;
        uint64_t nre = start + ((nbits2 + 7) / 8 + ((uint64_t)op[3] & 3)) * 8 - 1;
        errcode_t r = ext2fs_resize_generic_bmap(b, ne, nre);
        if (r) return Outcome::fail(who + "resize", "error " + str(r) + at);
        break; }
      case 14: ext2fs_set_generic_bmap_padding(b); break;  // padding lies outside [start,end]: must not change any answer
      case 15: {  // out-of-range single-bit ops: return 0, state unchanged
        uint64_t ob = ((end + 1 + (n % 3)) << cbits);
        int r1 = ext2fs_test_generic_bmap(b, ob); int r2 = (op[3] & 1) ? ext2fs_mark_generic_bmap(b, ob) : ext2fs_unmark_generic_bmap(b, ob);
        if (r1 || r2) return Outcome::fail(who + "out_of_range", "returned " + str(r1) + "/" + str(r2) + at);
        break; }
      default: break;
      }
    }
    // model update (once)
    switch (k) {
    case 0: m.insert(a); structural++; break;
    case 1: m.erase(a); structural++; break;
    case 3: if (kind == 0) { for (uint64_t x = a; x < a + n; x++) m.insert(x); structural++; } break;
    case 4: if (kind == 0) { for (uint64_t x = a; x < a + n; x++) m.erase(x); structural++; } break;
    case 7: {
      uint64_t s = start + ((a - start) & ~7ULL); uint64_t nn = (n + 7) & ~7ULL; if (nn > 4096) nn = 4096; if (s + nn - 1 > real_end) nn = real_end - s + 1;
      uint64_t seed = (uint64_t)op[3] * 0x9E3779B97F4A7C15ULL + 1; int mode = (int)(((uint64_t)op[3] >> 4) % 4);
      for (uint64_t x = 0; x < nn; x++) { seed ^= seed << 13; seed ^= seed >> 7; seed ^= seed << 17; int bit = mode == 0 ? 0 : mode == 1 ? 1 : mode == 2 ? (int)(seed & 1) : (int)((x / 5) & 1); if (s + x > end) continue; if (bit) m.insert(s + x); else m.erase(s + x); }
      structural++; break; }
    case 12: m.clear(); structural++; break;
    case 13: {
      uint64_t nbits2 = 1 + ((uint64_t)(op[2] < 0 ? -op[2] : op[2]) % 20000); uint64_t ne = start + nbits2 - 1;
      if (ne < end) m.erase(m.upper_bound(ne), m.end());
      end = ne; real_end = start + ((nbits2 + 7) / 8 + ((uint64_t)op[3] & 3)) * 8 - 1; structural++; break; }
    case 2: case 5: case 6: case 8: case 9: case 11: if (structural >= 3) queried_after = true; break;
    default: break;
    }
    static const char *names[] = {"mark", "unmark", "test", "mark_range", "unmark_range", "test_range", "get_range", "set_range", "ffz", "ffs", "copy", "compare_diff", "clear", "resize", "set_padding", "out_of_range"};
    if (k >= 0 && k < 16) count(std::string("op:") + names[k]);
  }
  // final full agreement sweep: every backend vs model over the whole range
  for (int i = 0; i < nb; i++) {
    for (uint64_t x = start; x <= end; x++) {
      int r = ext2fs_test_generic_bmap(bm[i].b, x << cbits);
      if (!!r != (int)m.count(x)) return Outcome::fail(std::string(bm[i].name) + ":final", "bit " + str(x) + " is " + str(r) + " model " + str(m.count(x)));
    }
  }
  Outcome o; o.nontrivial = queried_after; return o;
}

rc::Gen<Case> genCase() {
  using namespace rc;
  return gen::exec([]() {
    Case c;
    int kind = *gen::weightedElement<int>({{3, 0}, {1, 1}});
    int cbits = kind == 0 ? *gen::weightedElement<int>({{3, 0}, {1, 2}, {1, 4}}) : 0;
    i64 start = *gen::element<i64>(0, 1);
    i64 nbits = *gen::weightedOneOf<i64>({{3, range<i64>(1, 80)}, {3, range<i64>(80, 700)}, {1, range<i64>(700, 20000)}});
    i64 pad = *gen::element<i64>(0, 0, 1, 2);
    c.cfg = {kind, cbits, start, nbits, pad};
    int nops = *range<int>(1, 60);
    // a few "anchor" positions so that ops hit extent edges (+-1) often
    std::vector<i64> anchors = {0, nbits - 1};
    int na = *range<int>(1, 5);
    for (int i = 0; i < na; i++) anchors.push_back(*range<i64>(0, nbits));
    for (int i = 0; i < nops; i++) {
      int k = *gen::weightedElement<int>({{10, 0}, {8, 1}, {6, 2}, {8, 3}, {8, 4}, {6, 5}, {5, 6}, {5, 7}, {7, 8}, {6, 9}, {2, 10}, {2, 11}, {1, 12}, {2, 13}, {1, 14}, {1, 15}});
      i64 a = *gen::weightedOneOf<i64>({{3, gen::map(gen::tuple(gen::elementOf(anchors), range<i64>(-2, 3)), [nbits](const std::tuple<i64, i64> &t) { i64 v = std::get<0>(t) + std::get<1>(t); if (v < 0) v = 0; if (v >= nbits) v = nbits - 1; return v; })}, {2, range<i64>(0, nbits)}});
      i64 n = *gen::weightedOneOf<i64>({{4, range<i64>(1, 12)}, {2, range<i64>(1, 130)}, {1, range<i64>(1, nbits + 1)}});
      i64 x = *range<i64>(0, 1 << 16);
      c.ops.push_back({k, a, n, x});
    }
    return c;
  });
}
}  // namespace

int main(int argc, char **argv) { return pbt::main_(argc, argv, "C16 bitmap backends == set model", genCase, body); }
