// Shared plumbing for the in-process rapidcheck harnesses.
// A case is purely numeric: a config vector and a list of ops (each a vector of integers), so that
// serialisation, replay (bypassing rapidcheck), hashing and driver-side ddmin are generic.
#pragma once
#include <rapidcheck.h>
#include <cstdint>
#include <cstdio>
#include <cstdlib>
#include <cstring>
#include <map>
#include <set>
#include <sstream>
#include <string>
#include <unordered_set>
#include <vector>
#include <fcntl.h>
#include <fnmatch.h>
#include <unistd.h>

namespace pbt {
typedef long long i64;
struct Case {
  std::vector<i64> cfg;
  std::vector<std::vector<i64>> ops;
};
inline std::string ser(const Case &c) {
  std::ostringstream o;
  o << "cfg";
  for (auto v : c.cfg) o << ' ' << v;
  o << '\n';
  for (auto &op : c.ops) {
    o << "op";
    for (auto v : op) o << ' ' << v;
    o << '\n';
  }
  return o.str();
}
inline Case parse(const std::string &s) {
  Case c;
  std::istringstream in(s);
  std::string line;
  while (std::getline(in, line)) {
    std::istringstream l(line);
    std::string w;
    l >> w;
    std::vector<i64> v;
    i64 x;
    while (l >> x) v.push_back(x);
    if (w == "cfg") c.cfg = v;
    else if (w == "op") c.ops.push_back(v);
  }
  return c;
}
inline uint64_t fnv(const std::string &s) {
  uint64_t h = 1469598103934665603ULL;
  for (unsigned char ch : s) { h ^= ch; h *= 1099511628211ULL; }
  return h;
}
struct Outcome {
  bool ok = true;
  std::string tag;     // narrow failure class, used for known-finding exclusion
  std::string detail;  // human readable
  bool nontrivial = false;
  static Outcome fail(const std::string &tag, const std::string &detail) { Outcome o; o.ok = false; o.tag = tag; o.detail = detail; return o; }
};
struct Stats {
  long evaluations = 0, excluded_known = 0;
  std::map<std::string, long> classes;
  std::map<std::string, long> known_hits;
  std::unordered_set<uint64_t> nontrivial;
  std::vector<std::string> samples;
  std::set<std::string> known;
  std::string last_fail_case, last_fail_tag, last_fail_detail;
  int ringfd = -1;
};
inline Stats &S() { static Stats s; return s; }
inline void count(const std::string &k, long n = 1) { S().classes[k] += n; }
inline std::string jesc(const std::string &s) {
  std::string o;
  for (unsigned char ch : s) {
    if (ch == '"' || ch == '\\') { o += '\\'; o += ch; }
    else if (ch == '\n') o += "\\n";
    else if (ch < 32) { char b[8]; snprintf(b, sizeof b, "\\u%04x", ch); o += b; }
    else o += ch;
  }
  return o;
}
inline void init() {
  const char *k = getenv("PBT_KNOWN");
  if (k) { std::istringstream in(k); std::string t; while (std::getline(in, t, '\x1f')) if (!t.empty()) S().known.insert(t); }  // separated by 0x1f: tags may contain commas
  const char *r = getenv("PBT_RING");
  if (r) S().ringfd = open(r, O_WRONLY | O_CREAT | O_TRUNC, 0644);
}
inline void write_out(bool ok) {
  const char *p = getenv("PBT_OUT");
  if (!p) return;
  FILE *f = fopen(p, "w");
  if (!f) return;
  Stats &s = S();
  fprintf(f, "{\"ok\": %s, \"evaluations\": %ld, \"excluded_known\": %ld, \"classes\": {", ok ? "true" : "false", s.evaluations, s.excluded_known);
  bool first = true;
  for (auto &kv : s.classes) { fprintf(f, "%s\"%s\": %ld", first ? "" : ", ", jesc(kv.first).c_str(), kv.second); first = false; }
  fprintf(f, "}, \"known_hits\": {");
  first = true;
  for (auto &kv : s.known_hits) { fprintf(f, "%s\"%s\": %ld", first ? "" : ", ", jesc(kv.first).c_str(), kv.second); first = false; }
  fprintf(f, "}, \"samples\": [");
  first = true;
  for (auto &x : s.samples) { fprintf(f, "%s\"%s\"", first ? "" : ", ", jesc(x).c_str()); first = false; }
  fprintf(f, "], \"fail_case\": \"%s\", \"fail_tag\": \"%s\", \"fail_detail\": \"%s\", \"nontrivial\": [", jesc(s.last_fail_case).c_str(), jesc(s.last_fail_tag).c_str(), jesc(s.last_fail_detail).c_str());
  first = true;
  for (auto h : s.nontrivial) { fprintf(f, "%s\"%016llx\"", first ? "" : ", ", (unsigned long long)h); first = false; }
  fprintf(f, "]}\n");
  fclose(f);
}
// Runs one case through `body` with logging/accounting; returns true if the property held (or failure is a known finding).
template <class Body> bool eval(const Case &c, Body body, std::string *why = nullptr) {
  Stats &s = S();
  std::string text = ser(c);
  if (s.ringfd >= 0) { (void)!ftruncate(s.ringfd, 0); (void)!pwrite(s.ringfd, text.data(), text.size(), 0); }
  Outcome o = body(c);
  s.evaluations++;
  if (o.ok) {
    if (o.nontrivial) {
      if (s.nontrivial.insert(fnv(text)).second && s.samples.size() < 3 && c.ops.size() <= 40) s.samples.push_back(text);
    }
    return true;
  }
  for (auto &k : s.known) if (k == o.tag || fnmatch(k.c_str(), o.tag.c_str(), 0) == 0) { s.excluded_known++; s.known_hits[k]++; return true; }
  s.last_fail_case = text; s.last_fail_tag = o.tag; s.last_fail_detail = o.detail;
  if (why) *why = o.tag + ": " + o.detail;
  return false;
}
// main helper: replay mode or rapidcheck mode
template <class GenFn, class Body> int main_(int argc, char **argv, const char *name, GenFn gen, Body body) {
  init();
  if (argc >= 3 && !strcmp(argv[1], "--replay")) {
    FILE *f = fopen(argv[2], "r");
    if (!f) { perror("replay"); return 2; }
    std::string s; char buf[4096]; size_t n;
    while ((n = fread(buf, 1, sizeof buf, f)) > 0) s.append(buf, n);
    fclose(f);
    Case c = parse(s);
    Outcome o = body(c);
    if (o.ok) { printf("REPLAY-OK nontrivial=%d\n", (int)o.nontrivial); return 0; }
    printf("REPLAY-FAIL tag=%s detail=%s\n", o.tag.c_str(), o.detail.c_str());
    return 1;
  }
  bool ok = rc::check(name, [&]() {
    Case c = *gen();
    std::string why;
    if (!eval(c, body, &why)) RC_FAIL(why);
  });
  write_out(ok);
  return ok ? 0 : 1;
}
// generator helpers: inRange wrapped so it does not collapse at small sizes
template <class T> rc::Gen<T> range(T lo, T hi_excl) { return rc::gen::resize(1000, rc::gen::inRange<T>(lo, hi_excl)); }
}  // namespace pbt
