// C17 (G2): loading the allocation bitmaps with n threads == single-threaded loading, and no data race (TSan build).
// cfg: [image index (file $PBT_DIR/img<k>), nthreads, which(1 inode, 2 block, 3 both)]   ops: [delay]  (schedule vector)
// The interleaving is a function of the case: every pread64 of the process is delayed by schedule[global arrival index % len].
#include "pbt.h"
#include <atomic>
#include <pthread.h>
#include <sys/syscall.h>
extern "C" {
#include "ext2fs/ext2fs.h"
}
using namespace pbt;
namespace sched {
std::atomic<long> arrivals{0};
std::vector<int> delays;
std::atomic<bool> on{false};
pthread_mutex_t mu = PTHREAD_MUTEX_INITIALIZER;
std::set<pthread_t> threads;
}
extern "C" ssize_t pread64(int fd, void *buf, size_t n, off64_t off) {
  if (sched::on.load()) {
    long k = sched::arrivals.fetch_add(1);
    pthread_mutex_lock(&sched::mu); sched::threads.insert(pthread_self()); pthread_mutex_unlock(&sched::mu);
    if (!sched::delays.empty()) {
      int d = sched::delays[k % sched::delays.size()];
      if (d == 1) sched_yield(); else if (d > 1) usleep((d - 1) * 40);
    }
  }
  return syscall(SYS_pread64, fd, buf, n, off);
}
extern "C" ssize_t pread(int fd, void *buf, size_t n, off_t off) { return pread64(fd, buf, n, off); }
namespace {
std::string str(i64 v) { return std::to_string(v); }
struct Loaded { errcode_t rc; std::vector<unsigned char> bits; int flags; unsigned groups; size_t nthreads_seen; };
Loaded load(const std::string &img, int n, int which) {
  Loaded L{0, {}, 0, 0, 0};
  ext2_filsys fs;
  L.rc = ext2fs_open(img.c_str(), EXT2_FLAG_64BITS | EXT2_FLAG_THREADS, 0, 0, unix_io_manager, &fs);
  if (L.rc) return L;
  L.groups = fs->group_desc_count;
  int fl = ((which & 1) ? EXT2FS_BITMAPS_INODE : 0) | ((which & 2) ? EXT2FS_BITMAPS_BLOCK : 0);
  { pthread_mutex_lock(&sched::mu); sched::threads.clear(); pthread_mutex_unlock(&sched::mu); }
  sched::arrivals = 0; sched::on = true;
  L.rc = ext2fs_rw_bitmaps(fs, fl, n);
  sched::on = false;
  { pthread_mutex_lock(&sched::mu); L.nthreads_seen = sched::threads.size(); pthread_mutex_unlock(&sched::mu); }
  if (!L.rc) {
    if (which & 2) { blk64_t nb = ext2fs_blocks_count(fs->super); for (blk64_t b = fs->super->s_first_data_block; b < nb; b++) L.bits.push_back(ext2fs_test_block_bitmap2(fs->block_map, b) ? 1 : 0); }
    if (which & 1) for (ext2_ino_t i = 1; i <= fs->super->s_inodes_count; i++) L.bits.push_back(ext2fs_test_inode_bitmap2(fs->inode_map, i) ? 1 : 0);
    L.flags = fs->flags & (EXT2_FLAG_BBITMAP_TAIL_PROBLEM | EXT2_FLAG_IBITMAP_TAIL_PROBLEM);
  }
  ext2fs_close_free(&fs);
  return L;
}
Outcome body(const Case &c) {
  if (c.cfg.size() < 3) return Outcome();
  const char *dir = getenv("PBT_DIR");
  if (!dir) return Outcome::fail("harness", "PBT_DIR not set");
  int nimg = atoi(getenv("PBT_NIMG") ? getenv("PBT_NIMG") : "1");
  std::string img = std::string(dir) + "/img" + str(c.cfg[0] % nimg);
  int n = (int)c.cfg[1], which = (int)(c.cfg[2] & 3); if (!which) which = 3;
  sched::delays.clear();
  Loaded ref = load(img, 1, which);
  if (n == 0) n = (int)ref.groups + 1;
  for (auto &op : c.ops) if (!op.empty()) sched::delays.push_back((int)(op[0] < 0 ? 0 : op[0] % 6));
  Loaded got = load(img, n, which);
  sched::delays.clear();
  count("threads:" + str(got.nthreads_seen > 8 ? 9 : (long)got.nthreads_seen));
  count(std::string("load:") + (ref.rc ? "error" : "ok"));
  std::string at = " img=" + img + " n=" + str(n) + " which=" + str(which) + " groups=" + str(ref.groups);
  if ((ref.rc != 0) != (got.rc != 0)) return Outcome::fail("threads:retval", "single-threaded rc=" + str(ref.rc) + " threaded rc=" + str(got.rc) + at);
  if (!ref.rc) {
    if (ref.flags != got.flags) return Outcome::fail("threads:flags", "tail flags " + str(ref.flags) + " vs " + str(got.flags) + at);
    if (ref.bits != got.bits) { size_t i = 0; while (i < ref.bits.size() && i < got.bits.size() && ref.bits[i] == got.bits[i]) i++; return Outcome::fail("threads:bitmap", "bitmaps differ at bit index " + str(i) + at); }
  }
  Outcome o; o.nontrivial = got.nthreads_seen >= 2; return o;
}
rc::Gen<Case> genCase() {
  using namespace rc;
  return gen::exec([]() {
    Case c;
    c.cfg = {*range<i64>(0, 1000), *gen::element<i64>(2, 3, 4, 7, 16, 0, 5, 2), *gen::weightedElement<i64>({{4, 3}, {1, 1}, {1, 2}})};
    int len = *range<int>(0, 24);
    for (int i = 0; i < len; i++) c.ops.push_back({*gen::weightedElement<i64>({{3, 0}, {2, 1}, {1, 2}, {1, 3}, {1, 5}})});
    return c;
  });
}
}  // namespace
int main(int argc, char **argv) { return pbt::main_(argc, argv, "C17 threaded bitmap load == single-threaded", genCase, body); }
