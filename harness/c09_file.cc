// C09: file data written through libext2fs reads back exactly (sparse byte model), several files, all mapping types.
// cfg: [template index ($PBT_DIR/tpl<k>)]
// ops: [kind, file, bidx, delta, len, seed]
//   0 write  1 read  2 set_size  3 punch(start blk, nblk)  4 fallocate(flags=seed&15, start blk, nblk)  5 flush  6 close handle  7 reopen fs
#include "pbt.h"
#include <cerrno>
#include <map>
#include <sys/wait.h>
extern "C" {
#include "ext2fs/ext2fs.h"
}
using namespace pbt;
namespace {
std::string str(i64 v) { return std::to_string(v); }
const int PG = 4096;
struct Model {  // sparse byte model: value 0..255, or -1 = unknown (after a reported error / where the API leaves data unspecified)
  std::map<uint64_t, std::vector<short>> pages;
  std::map<uint64_t, uint64_t> unk;  // disjoint unknown intervals start -> end (exclusive)
  uint64_t size = 0;
  uint64_t last_write_end = 0;  // the handle buffers the last block it touched: an error reported later concerns that block
  bool is_unk(uint64_t o) const { auto it = unk.upper_bound(o); if (it == unk.begin()) return false; --it; return o < it->second; }
  void unk_erase(uint64_t lo, uint64_t hi) {
    if (lo >= hi) return;
    auto it = unk.upper_bound(lo); if (it != unk.begin()) --it;
    while (it != unk.end() && it->first < hi) {
      uint64_t a = it->first, b = it->second;
      if (b <= lo) { ++it; continue; }
      it = unk.erase(it);
      if (a < lo) unk[a] = lo;
      if (b > hi) { unk[hi] = b; break; }
    }
  }
  void unk_insert(uint64_t lo, uint64_t hi) { if (lo >= hi) return; unk_erase(lo, hi); unk[lo] = hi; }
  short get(uint64_t o) const { if (is_unk(o)) return -1; auto it = pages.find(o / PG); return it == pages.end() ? 0 : it->second[o % PG]; }
  void set(uint64_t o, short v) { auto &p = pages[o / PG]; if (p.empty()) p.assign(PG, 0); p[o % PG] = v; }   // caller clears unk for the range first
  void write(uint64_t off, const unsigned char *b, uint64_t n) { unk_erase(off, off + n); for (uint64_t i = 0; i < n; i++) set(off + i, b[i]); }
  void fill(uint64_t lo, uint64_t hi, short v) {  // [lo,hi); v is 0 or -1
    if (lo >= hi) return;
    if (v < 0) { unk_insert(lo, hi); return; }
    unk_erase(lo, hi);
    for (auto it = pages.lower_bound(lo / PG); it != pages.end() && it->first * PG < hi; ++it) { uint64_t b = it->first * PG; for (uint64_t o = std::max(lo, b); o < std::min(hi, b + PG); o++) it->second[o - b] = 0; }
  }
  void zero_to_unknown(uint64_t lo, uint64_t hi) {  // bytes that are currently 0 (holes) become unspecified
    for (uint64_t b = lo; b < hi;) { uint64_t e = std::min(hi, (b / PG + 1) * PG); auto it = pages.find(b / PG); if (it == pages.end()) unk_insert(b, e); else for (uint64_t o = b; o < e; o++) if (it->second[o % PG] == 0) unk_insert(o, o + 1); b = e; if (hi - lo > (64ULL << 20)) { unk_insert(lo, hi); return; } }
  }
  void truncate(uint64_t n) { unk_erase(n, ~0ULL); fill(n, (pages.empty() ? n : (pages.rbegin()->first + 1) * PG), 0); for (auto it = pages.begin(); it != pages.end();) { if (it->first * PG >= n) it = pages.erase(it); else ++it; } size = n; }
};
unsigned char pat(uint64_t seed, uint64_t i) { uint64_t x = seed * 0x9E3779B97F4A7C15ULL + i * 0xBF58476D1CE4E5B9ULL; x ^= x >> 29; return (unsigned char)(x | 1); }
bool copy_file(const std::string &a, const std::string &b) {
  FILE *f = fopen(a.c_str(), "rb"), *g = fopen(b.c_str(), "wb");
  if (!f || !g) { if (f) fclose(f); if (g) fclose(g); return false; }
  std::vector<char> buf(1 << 20); size_t n;
  while ((n = fread(buf.data(), 1, buf.size(), f)) > 0) fwrite(buf.data(), 1, n, g);
  fclose(f); fclose(g); return true;
}
bool legal_error(errcode_t e) {
  return e == ENOSPC || e == EXT2_ET_BLOCK_ALLOC_FAIL || e == EXT2_ET_FILE_TOO_BIG || e == EFBIG || e == EXT2_ET_OP_NOT_SUPPORTED ||
         e == EXT2_ET_INODE_ALLOC_FAIL || e == EXT2_ET_EXTENT_NO_SPACE || e == EXT2_ET_INLINE_DATA_NO_SPACE || e == EXT2_ET_UNIMPLEMENTED;
}
struct FsH {
  ext2_filsys fs = nullptr; ext2_file_t fh[3] = {nullptr, nullptr, nullptr};
  ~FsH() { for (auto &h : fh) if (h) ext2fs_file_close(h); if (fs) ext2fs_close_free(&fs); }
};
int run_fsck(const std::string &img, std::string *out) {
  const char *fsck = getenv("PBT_E2FSCK");
  if (!fsck) return 0;
  std::string cmd = std::string("E2FSCK_CONFIG=/dev/null ") + fsck + " -fn " + img + " 2>&1";
  FILE *p = popen(cmd.c_str(), "r");
  if (!p) return -1;
  char buf[4096]; size_t n; while ((n = fread(buf, 1, sizeof buf, p)) > 0) if (out->size() < 3000) out->append(buf, n);
  int st = pclose(p);
  return WIFEXITED(st) ? WEXITSTATUS(st) : 128;
}

Outcome body(const Case &c) {
  if (c.cfg.empty()) return Outcome();
  const char *dir = getenv("PBT_DIR");
  if (!dir) return Outcome::fail("harness", "PBT_DIR not set");
  int ntpl = atoi(getenv("PBT_NTPL") ? getenv("PBT_NTPL") : "1");
  int tpl = (int)(c.cfg[0] % ntpl);
  std::string img = std::string(dir) + "/work." + str(getpid());
  if (!copy_file(std::string(dir) + "/tpl" + str(tpl), img)) return Outcome::fail("harness", "copy template");
  struct Rm { std::string p; ~Rm() { const char *k = getenv("PBT_KEEP"); if (k) rename(p.c_str(), k); else unlink(p.c_str()); } } rm{img};
  FsH H;
  auto openfs = [&]() { return ext2fs_open(img.c_str(), EXT2_FLAG_RW | EXT2_FLAG_64BITS, 0, 0, unix_io_manager, &H.fs); };
  errcode_t e = openfs();
  if (e) return Outcome::fail("harness", "open " + str(e));
  e = ext2fs_read_bitmaps(H.fs);
  if (e) return Outcome::fail("harness", "read_bitmaps " + str(e));
  ext2_ino_t ino[3]; Model M[3];
  for (int i = 0; i < 3; i++) { std::string nm = "f" + str(i); e = ext2fs_namei(H.fs, EXT2_ROOT_INO, EXT2_ROOT_INO, nm.c_str(), &ino[i]); if (e) return Outcome::fail("harness", "namei"); }
  uint64_t bs = H.fs->blocksize, apb = bs / 4;
  int cbits = H.fs->cluster_ratio_bits;
  struct ext2_inode tin; ext2fs_read_inode(H.fs, ino[0], &tin);
  const char *kind = (tin.i_flags & EXT4_INLINE_DATA_FL) ? "inline" : (tin.i_flags & EXT4_EXTENTS_FL) ? (cbits ? "bigalloc" : "extent") : "blockmap";
  count(std::string("tpl:") + kind + ":" + str(bs));
  bool is_extent = tin.i_flags & EXT4_EXTENTS_FL, is_inline = tin.i_flags & EXT4_INLINE_DATA_FL;
  // boundary blocks
  std::vector<uint64_t> bnd = {0, 1, 2, 3, 4, 11, 12, 13, 12 + apb - 1, 12 + apb, 12 + apb + 1, 12 + 2 * apb - 1, 12 + 2 * apb, 12 + 2 * apb + 1, 12 + 3 * apb, 12 + apb + 5 * apb,
                               12 + apb + apb * apb - 1, 12 + apb + apb * apb, 12 + apb + apb * apb + 1, 339, 340, 341, 680, 32767, 32768, 32769, 1ULL << cbits, (2ULL << cbits) - 1, 15, 16, 17};
  // templates whose f0 is pre-populated (every stride-th block holds data: one extent per block, so the extent tree is 2 levels deep): "$PBT_DIR/tpl<k>.prefill" = "<nblocks> <stride>"
  {
    FILE *pf = fopen((std::string(dir) + "/tpl" + str(tpl) + ".prefill").c_str(), "r");
    if (pf) {
      unsigned long n = 0, stride = 2;
      if (fscanf(pf, "%lu %lu", &n, &stride) == 2 && n > 0) {
        std::vector<unsigned char> blkbuf(bs);
        for (uint64_t k = 0; k < n; k++) { uint64_t b = k * stride; memset(blkbuf.data(), (int)(((b * 7 + 3) & 0xff) | 1), bs); M[0].write(b * bs, blkbuf.data(), bs); }
        M[0].size = ((n - 1) * stride + 1) * bs;
        uint64_t L = (bs - 12) / 12;   // entries per extent tree block
        for (uint64_t j : {(uint64_t)1, (uint64_t)2, L - 1, L, L + 1, L + 2}) { uint64_t lb = stride * L * j; if (lb < n * stride) { bnd.push_back(lb); bnd.push_back(lb + stride); bnd.push_back(lb - stride); } }
        bnd.push_back((n - 1) * stride); bnd.push_back(n * stride / 2);
        count("tpl:prefilled-deep-extent-tree");
      }
      fclose(pf);
    }
  }
  auto blk_of = [&](i64 bidx) -> uint64_t { if (bidx < 0) bidx = -bidx; if (bidx >= 100) return (uint64_t)(bidx - 100) % 600; return bnd[bidx % bnd.size()]; };
  auto get_fh = [&](int f, errcode_t *err) -> ext2_file_t { if (!H.fh[f]) { *err = ext2fs_file_open(H.fs, ino[f], EXT2_FILE_WRITE, &H.fh[f]); if (*err) H.fh[f] = nullptr; } return H.fh[f]; };
  auto close_fh = [&](int f) -> errcode_t { errcode_t r = 0; if (H.fh[f]) { r = ext2fs_file_close(H.fh[f]); H.fh[f] = nullptr; } return r; };
  auto buffered_unknown = [&](int f) { uint64_t e = M[f].last_write_end; if (e) { uint64_t b = (e - 1) / bs * bs; M[f].fill(b, b + bs, -1); } };
  std::set<std::string> errops;
  int mutations[3] = {0, 0, 0}; bool nontrivial = false; bool reopened_after_punch = false, punched = false; int errors = 0;
  int step = 0;
  auto check_read = [&](int f, uint64_t off, uint64_t len, const std::string &at) -> Outcome {
    errcode_t err = 0; ext2_file_t fh = get_fh(f, &err);
    if (!fh) return Outcome::fail("open-file", "error " + str(err) + at);
    __u64 pos; err = ext2fs_file_llseek(fh, off, EXT2_SEEK_SET, &pos);
    if (err) return Outcome::fail("llseek", "error " + str(err) + at);
    std::vector<unsigned char> buf(len + 1, 0x5A); unsigned got = 0;
    err = ext2fs_file_read(fh, buf.data(), (unsigned)len, &got);
    if (err) { if (legal_error(err)) { /* a buffered write whose mapping could not be completed (e.g. ENOSPC converting an unwritten extent) is reported by the next call that flushes it */ errors++; errops.insert("read-flush"); count("err:read-flush:" + str(err)); close_fh(f); buffered_unknown(f); return Outcome(); } return Outcome::fail(std::string("read-error:") + kind, "error " + str(err) + at); }
    uint64_t want = off >= M[f].size ? 0 : std::min<uint64_t>(len, M[f].size - off);
    if (got != want) return Outcome::fail(std::string("read-length:") + kind, "got " + str(got) + " expected " + str(want) + " size " + str(M[f].size) + at);
    for (uint64_t i = 0; i < got; i++) { short mv = M[f].get(off + i); if (mv >= 0 && buf[i] != mv) return Outcome::fail(std::string("read-data:") + kind, "file f" + str(f) + " byte " + str(off + i) + " (blk " + str((off + i) / bs) + "+" + str((off + i) % bs) + ") is " + str(buf[i]) + " model " + str(mv) + at); }
    return Outcome();
  };
  for (auto &op : c.ops) {
    step++;
    if (op.size() < 6) continue;
    int k = (int)op[0], f = (int)((op[1] < 0 ? -op[1] : op[1]) % 3);
    uint64_t blk = blk_of(op[2]); i64 delta = op[3]; uint64_t len = (uint64_t)(op[4] < 0 ? -op[4] : op[4]); uint64_t seed = (uint64_t)op[5];
    i64 offs = (i64)(blk * bs) + delta; if (offs < 0) offs = 0; uint64_t off = (uint64_t)offs;
    std::string at = " [step " + str(step) + " op " + str(k) + " f" + str(f) + " off " + str(off) + " len " + str(len) + " bs " + str(bs) + "]";
    errcode_t err = 0;
    switch (k) {
    case 0: {  // write
      if (len == 0) len = 1; if (len > 200000) len = 200000;
      if (is_inline && M[f].size > 0 && off < M[f].size && off > 0 && getenv("PBT_NO_INLINE_MIDWRITE")) break;
      ext2_file_t fh = get_fh(f, &err); if (!fh) return Outcome::fail("open-file", "error " + str(err) + at);
      __u64 pos; err = ext2fs_file_llseek(fh, off, EXT2_SEEK_SET, &pos); if (err) { count("err:llseek"); break; }
      std::vector<unsigned char> buf(len); for (uint64_t i = 0; i < len; i++) buf[i] = pat(seed + step * 7919, i);
      unsigned written = 0; err = ext2fs_file_write(fh, buf.data(), (unsigned)len, &written);
      if (err) {
        if (!legal_error(err)) return Outcome::fail(std::string("write-error:") + kind, "unexpected error " + str(err) + at);
        errors++; errops.insert("write"); count("err:write:" + str(err)); M[f].fill(off, off + len, -1); buffered_unknown(f);
        __u64 sz = 0; ext2fs_file_get_lsize(fh, &sz);
        if (sz < M[f].size || sz > std::max<uint64_t>(M[f].size, off + len)) return Outcome::fail(std::string("size-after-error:") + kind, "size " + str(sz) + at);
        if (sz > M[f].size) { M[f].fill(M[f].size, sz, -1); M[f].size = sz; }
        close_fh(f);  // the handle still holds the block it could not map; drop it (its flush fails again, which is the same reported error)
        break;
      }
      if (written != len) return Outcome::fail(std::string("short-write:") + kind, "written " + str(written) + at);
      M[f].write(off, buf.data(), len); M[f].last_write_end = off + len;
      if (off + len > M[f].size) M[f].size = off + len;
      mutations[f]++; count("op:write"); break; }
    case 1: {
      if (len == 0) len = 1; if (len > 300000) len = 300000;
      Outcome o = check_read(f, off, len, at); if (!o.ok) return o;
      if (mutations[f] >= 2) nontrivial = true;
      count("op:read"); break; }
    case 2: {  // set_size
      if (is_inline && pbt::S().known.count("set_size:inline")) { count("excluded:set_size-on-inline (known finding)"); pbt::S().known_hits["set_size:inline"]; break; }
      ext2_file_t fh = get_fh(f, &err); if (!fh) return Outcome::fail("open-file", "error " + str(err) + at);
      err = ext2fs_file_set_size2(fh, off);
      if (err && is_inline) return Outcome::fail("set_size:inline", "ext2fs_file_set_size2 on an inline-data file returned " + str(err) + at);
      if (err) { if (!legal_error(err)) return Outcome::fail(std::string("set_size-error:") + kind, "unexpected error " + str(err) + at); errors++; errops.insert("set_size"); count("err:set_size:" + str(err)); __u64 sz = 0; ext2fs_file_get_lsize(fh, &sz); if (sz != M[f].size && sz != off) return Outcome::fail("size-after-error", "size " + str(sz) + at); if (sz < M[f].size) M[f].truncate(sz); else M[f].size = sz; break; }
      if (off < M[f].size) M[f].truncate(off); else M[f].size = off;
      mutations[f]++; punched = true; count("op:set_size"); break; }
    case 3: {  // punch blocks [blk, blk+n-1]
      if (is_inline) break;
      uint64_t n = 1 + len % 700; if (seed % 7 == 0) n = ~0ULL - blk;  // to the end
      err = close_fh(f); if (err && !legal_error(err)) return Outcome::fail("close-error", "error " + str(err) + at);
      if (err) { errors++; buffered_unknown(f); }
      uint64_t endb = n == ~0ULL - blk ? ~0ULL : blk + n - 1;
      err = ext2fs_punch(H.fs, ino[f], NULL, NULL, blk, endb);
      if (err) { if (!legal_error(err)) return Outcome::fail(std::string("punch-error:") + kind, "unexpected error " + str(err) + at); errors++; errops.insert("punch"); count("err:punch:" + str(err)); M[f].fill(blk * bs, std::min<uint64_t>(M[f].size, endb == ~0ULL ? M[f].size : (endb + 1) * bs), -1); break; }
      uint64_t hi = endb == ~0ULL ? M[f].size : std::min<uint64_t>(M[f].size, (endb + 1) * bs);
      if (blk * bs < hi) M[f].fill(blk * bs, hi, 0);
      mutations[f]++; punched = true; count("op:punch"); break; }
    case 4: {  // fallocate: (a) posix_fallocate-like: INIT_BEYOND_EOF then the caller extends i_size (as fuse2fs does); (b) keep-size (extent files only)
      if (is_inline) break;
      bool extend = (seed & 8) || !is_extent;
      int flags = (int)(seed & 7); if ((flags & 6) == 6) flags &= ~4;
      if (!is_extent) flags &= ~EXT2_FALLOCATE_FORCE_UNINIT;
      if (extend) { flags |= EXT2_FALLOCATE_INIT_BEYOND_EOF; flags &= ~EXT2_FALLOCATE_FORCE_UNINIT; }
      else flags &= ~EXT2_FALLOCATE_FORCE_INIT;  // forcing initialised extents past EOF obliges the caller to extend i_size: that is variant (a)
      uint64_t n = 1 + len % 300;
      err = close_fh(f); if (err && !legal_error(err)) return Outcome::fail("close-error", "error " + str(err) + at);
      if (err) { errors++; buffered_unknown(f); }
      err = ext2fs_fallocate(H.fs, flags, ino[f], NULL, ~0ULL, blk, n);
      uint64_t osize = M[f].size, nsize = extend ? std::max<uint64_t>(osize, (blk + n) * bs) : osize;
      bool unspecified = is_extent && (flags & EXT2_FALLOCATE_FORCE_INIT) && !(flags & EXT2_FALLOCATE_ZERO_BLOCKS);
      if (err) { if (!legal_error(err)) return Outcome::fail(std::string("fallocate-error:") + kind, "unexpected error " + str(err) + " flags " + str(flags) + at); errors++; errops.insert("fallocate"); count("err:fallocate:" + str(err)); unspecified = true; /* like fuse2fs, the caller still extends i_size over what was allocated */ }
      struct ext2_inode in; ext2fs_read_inode(H.fs, ino[f], &in);
      if (EXT2_I_SIZE(&in) != osize) return Outcome::fail(std::string("fallocate-size:") + kind, "i_size " + str(EXT2_I_SIZE(&in)) + " model " + str(osize) + " flags " + str(flags) + at);
      if (nsize != osize) { err = ext2fs_inode_size_set(H.fs, &in, nsize); if (!err) err = ext2fs_write_inode(H.fs, ino[f], &in); if (err) return Outcome::fail("fallocate-size-set", "error " + str(err) + at); M[f].size = nsize; }
      uint64_t lo = blk * bs, hi = std::min<uint64_t>(M[f].size, (blk + n) * bs);
      if (unspecified && lo < hi) M[f].zero_to_unknown(lo, hi);
      mutations[f]++; count(extend ? "op:fallocate-extend" : "op:fallocate-keepsize"); break; }
    case 5: { if (H.fh[f]) { err = ext2fs_file_flush(H.fh[f]); if (err && !legal_error(err)) return Outcome::fail("flush-error", "error " + str(err) + at); if (err) { errors++; buffered_unknown(f); } } count("op:flush"); break; }
    case 6: { err = close_fh(f); if (err && !legal_error(err)) return Outcome::fail("close-error", "error " + str(err) + at); if (err) { errors++; buffered_unknown(f); } count("op:close"); break; }
    case 7: {
      for (int i = 0; i < 3; i++) { err = close_fh(i); if (err && !legal_error(err)) return Outcome::fail("close-error", "error " + str(err) + at); if (err) { errors++; buffered_unknown(i); } }
      err = ext2fs_close_free(&H.fs); H.fs = nullptr; if (err) return Outcome::fail("fs-close-error", "error " + str(err) + at);
      err = openfs(); if (err) return Outcome::fail("fs-reopen-error", "error " + str(err) + at);
      err = ext2fs_read_bitmaps(H.fs); if (err) return Outcome::fail("fs-reopen-error", "read_bitmaps " + str(err) + at);
      if (punched) reopened_after_punch = true;
      count("op:reopen-fs"); break; }
    default: break;
    }
  }
  // final: every file, through fresh handles: size, every model page, plus probes in holes
  for (int f = 0; f < 3; f++) {
    errcode_t err = close_fh(f); if (err && !legal_error(err)) return Outcome::fail("close-error", "error " + str(err));
    if (err) buffered_unknown(f);
    ext2_file_t fh = get_fh(f, &err); if (!fh) return Outcome::fail("open-file", "final " + str(err));
    __u64 sz = 0; ext2fs_file_get_lsize(fh, &sz);
    if (sz != M[f].size) return Outcome::fail(std::string("final-size:") + kind, "f" + str(f) + " size " + str(sz) + " model " + str(M[f].size));
    for (auto &pg : M[f].pages) { Outcome o = check_read(f, pg.first * PG, PG, " [final f" + str(f) + "]"); if (!o.ok) { o.tag = "final-" + o.tag; return o; } }
    uint64_t probes[] = {0, bs * 11, bs * 12, bs * (12 + apb), M[f].size / 2, M[f].size > PG ? M[f].size - PG : 0};
    for (uint64_t p : probes) if (p < M[f].size) { Outcome o = check_read(f, p, PG, " [final probe f" + str(f) + "]"); if (!o.ok) { o.tag = "final-" + o.tag; return o; } }
    close_fh(f);
  }
  errcode_t err = ext2fs_close_free(&H.fs); H.fs = nullptr;
  if (err) return Outcome::fail("fs-close-error", "final " + str(err));
  std::string out; int rc = run_fsck(img, &out);
  if (rc != 0) {
    // classify by the first problem line
    std::string first; size_t p = 0; while (p < out.size()) { size_t q = out.find('\n', p); std::string l = out.substr(p, q == std::string::npos ? q : q - p); if (l.rfind("Pass", 0) != 0 && l.rfind("e2fsck", 0) != 0 && !l.empty() && l.find("could be shorter") == std::string::npos && l.find("could be narrower") == std::string::npos) { first = l; break; } if (q == std::string::npos) break; p = q + 1; }
    std::string cls; for (char ch : first) { if (isdigit((unsigned char)ch)) { if (cls.empty() || cls.back() != '#') cls += '#'; } else cls += ch; }
    std::string eo; for (auto &x : errops) eo += (eo.empty() ? "" : "+") + x;
    return Outcome::fail(std::string(errors ? "fsck-after-error:" : "fsck:") + kind + ":" + (errors ? eo + ":" : "") + cls.substr(0, 60), "e2fsck -fn exit " + str(rc) + (errors ? " (after " + str(errors) + " reported errors)" : "") + "\n" + out);
  }
  if (errors) count("case:with-legal-errors");
  Outcome o; o.nontrivial = nontrivial || reopened_after_punch; return o;
}

rc::Gen<Case> genCase() {
  using namespace rc;
  return gen::exec([]() {
    Case c; c.cfg = {*range<i64>(0, 1000)};
    int nops = *range<int>(2, 40);
    int nfiles = *gen::weightedElement<int>({{2, 1}, {2, 2}, {1, 3}});
    // a few favourite positions per case so that ops overlap
    std::vector<i64> fav; int nf = *range<int>(1, 4);
    for (int i = 0; i < nf; i++) fav.push_back(*gen::weightedOneOf<i64>({{3, range<i64>(0, 63)}, {2, range<i64>(100, 130)}, {1, range<i64>(100, 700)}}));
    for (int i = 0; i < nops; i++) {
      int k = *gen::weightedElement<int>({{12, 0}, {8, 1}, {3, 2}, {4, 3}, {3, 4}, {1, 5}, {2, 6}, {1, 7}});
      i64 f = *range<i64>(0, nfiles);
      i64 bidx = *gen::weightedOneOf<i64>({{3, gen::elementOf(fav)}, {1, range<i64>(0, 63)}, {1, range<i64>(100, 700)}});
      i64 delta = *gen::weightedOneOf<i64>({{3, gen::element<i64>(0, 0, -1, 1, -3, 5)}, {2, range<i64>(-5000, 5000)}});
      i64 len = *gen::weightedOneOf<i64>({{3, range<i64>(1, 64)}, {3, range<i64>(64, 6000)}, {2, range<i64>(6000, 70000)}, {1, gen::element<i64>(1024, 4096, 1023, 4097, 65536, 12288)}});
      c.ops.push_back({k, f, bidx, delta, len, *range<i64>(0, 1 << 20)});
    }
    return c;
  });
}
}  // namespace
int main(int argc, char **argv) { return pbt::main_(argc, argv, "C09 file io == byte model", genCase, body); }
