// C06 (library half): libFuzzer target over libext2fs with an in-memory io manager.
// Input = [seed index][patch list: (32-bit offset selector, 1-8 bytes)...]: the mutator works on a compact structured form of "valid image + few patches".
// Call order mirrors dumpe2fs/debugfs/e2image: open2 (csum errors NOT ignored first, then ignored like e2fsck does), read_bitmaps, inode scan, block iterate, dir iterate, xattrs, extents.
// The semantic oracle inside the target: every call returns (error or success) without a sanitizer report; iteration counts are bounded.
// C06_SEEDS=img1:img2...   C06_WRITE_IMAGE=path (write the decoded image of the input that is being run; used to confirm a crash at tool level)
#include <fuzzer/FuzzedDataProvider.h>
#include <vector>
#include <string>
#include <cstring>
#include <cstdio>
#include <cstdlib>
#include <algorithm>
extern "C" {
#include "ext2fs/ext2_fs.h"
#include "ext2fs/ext2fs.h"
}
static std::vector<std::vector<uint8_t>> bases;
static std::vector<uint8_t> img;
extern io_manager mem_mgr;
static errcode_t m_open(const char *name, int, io_channel *ret) {
  io_channel io = (io_channel)calloc(1, sizeof(struct struct_io_channel)); io->magic = EXT2_ET_MAGIC_IO_CHANNEL; io->manager = mem_mgr;
  io->name = strdup(name); io->block_size = 1024; io->refcount = 1; *ret = io; return 0; }
static errcode_t m_close(io_channel ch) { if (--ch->refcount > 0) return 0; free(ch->name); free(ch); return 0; }
static errcode_t m_setbs(io_channel ch, int bs) { ch->block_size = bs; return 0; }
static errcode_t m_read64(io_channel ch, unsigned long long blk, int count, void *buf) {
  size_t n = count < 0 ? (size_t)-count : (size_t)count * ch->block_size; unsigned long long off = blk * (unsigned long long)ch->block_size;
  if (n > (64u << 20)) return EXT2_ET_SHORT_READ;
  if (off >= img.size()) { memset(buf, 0, n); return EXT2_ET_SHORT_READ; }
  size_t a = std::min(n, (size_t)(img.size() - off)); memcpy(buf, img.data() + off, a);
  if (a < n) { memset((char *)buf + a, 0, n - a); return EXT2_ET_SHORT_READ; } return 0; }
static errcode_t m_read(io_channel ch, unsigned long blk, int count, void *buf) { return m_read64(ch, blk, count, buf); }
static errcode_t m_write64(io_channel, unsigned long long, int, const void *) { return EXT2_ET_RO_FILSYS; }
static errcode_t m_write(io_channel, unsigned long, int, const void *) { return EXT2_ET_RO_FILSYS; }
static errcode_t m_flush(io_channel) { return 0; }
static struct struct_io_manager mm; io_manager mem_mgr = &mm;
static int dirproc(ext2_ino_t, int, struct ext2_dir_entry *, int, int, char *, void *p) { return (++*(long *)p > 200000) ? DIRENT_ABORT : 0; }
static int blkproc(ext2_filsys, blk64_t *, e2_blkcnt_t, blk64_t, int, void *p) { return (++*(long *)p > 200000) ? BLOCK_ABORT : 0; }

extern "C" int LLVMFuzzerInitialize(int *, char ***) {
  const char *p = getenv("C06_SEEDS"); if (!p) { fprintf(stderr, "C06_SEEDS not set\n"); exit(2); }
  std::string s(p); size_t i = 0;
  while (i <= s.size()) { size_t j = s.find(':', i); if (j == std::string::npos) j = s.size();
    std::string f = s.substr(i, j - i); i = j + 1; if (f.empty()) continue;
    FILE *fh = fopen(f.c_str(), "rb"); if (!fh) continue; fseek(fh, 0, SEEK_END); long n = ftell(fh); fseek(fh, 0, SEEK_SET);
    std::vector<uint8_t> b(n); if (fread(b.data(), 1, n, fh) != (size_t)n) { fclose(fh); continue; } fclose(fh); bases.push_back(std::move(b)); }
  if (bases.empty()) { fprintf(stderr, "no seed image\n"); exit(2); }
  mm.magic = EXT2_ET_MAGIC_IO_MANAGER; mm.name = "mem"; mm.open = m_open; mm.close = m_close; mm.set_blksize = m_setbs; mm.read_blk = m_read; mm.write_blk = m_write; mm.flush = m_flush; mm.read_blk64 = m_read64; mm.write_blk64 = m_write64;
  return 0; }

static void walk(int flags) {
  ext2_filsys fs;
  if (ext2fs_open2("mem", 0, EXT2_FLAG_64BITS | flags, 0, 0, mem_mgr, &fs)) return;
  ext2fs_read_bitmaps(fs);
  ext2_inode_scan scan;
  if (!ext2fs_open_inode_scan(fs, 0, &scan)) {
    ext2_ino_t ino; struct ext2_inode inode; long cnt = 0; int guard = 0;
    while (guard++ < 6000) {
      errcode_t r = ext2fs_get_next_inode(scan, &ino, &inode);
      if (r == EXT2_ET_BAD_BLOCK_IN_INODE_TABLE || r == EXT2_ET_INODE_CSUM_INVALID || r == EXT2_ET_INODE_IS_GARBAGE) continue;
      if (r || !ino) break;
      if (!inode.i_links_count) continue;
      if (ext2fs_inode_has_valid_blocks2(fs, &inode)) ext2fs_block_iterate3(fs, ino, BLOCK_FLAG_READ_ONLY, 0, blkproc, &cnt);
      if (LINUX_S_ISDIR(inode.i_mode)) ext2fs_dir_iterate2(fs, ino, 0, 0, dirproc, &cnt);
      struct ext2_xattr_handle *h;
      if (!ext2fs_xattrs_open(fs, ino, &h)) { ext2fs_xattrs_read(h); ext2fs_xattrs_close(&h); }
      if (inode.i_flags & EXT4_EXTENTS_FL) {
        ext2_extent_handle_t eh; struct ext2fs_extent e; int g2 = 0;
        if (!ext2fs_extent_open2(fs, ino, &inode, &eh)) {
          errcode_t er = ext2fs_extent_get(eh, EXT2_EXTENT_ROOT, &e);
          while (!er && g2++ < 5000) er = ext2fs_extent_get(eh, EXT2_EXTENT_NEXT, &e);
          ext2fs_extent_free(eh); } }
      if (cnt > 400000) break; }
    ext2fs_close_inode_scan(scan); }
  ext2fs_close(fs);
}

extern "C" int LLVMFuzzerTestOneInput(const uint8_t *data, size_t size) {
  FuzzedDataProvider fdp(data, size);
  const std::vector<uint8_t> &base = bases[fdp.ConsumeIntegral<uint8_t>() % bases.size()];
  img = base;
  int np = fdp.ConsumeIntegralInRange<int>(0, 12);
  for (int i = 0; i < np; i++) {
    // offsets biased to the metadata-dense first 512 KiB, sometimes anywhere
    uint32_t sel = fdp.ConsumeIntegral<uint32_t>(); size_t lim = (sel & 3) ? std::min<size_t>(img.size() - 8, 512 * 1024) : img.size() - 8;
    size_t off = 1024 + (sel >> 2) % (lim - 1024);
    auto b = fdp.ConsumeBytes<uint8_t>(fdp.ConsumeIntegralInRange<int>(1, 8));
    for (size_t k = 0; k < b.size(); k++) img[off + k] = b[k]; }
  if (const char *o = getenv("C06_WRITE_IMAGE")) { FILE *f = fopen(o, "wb"); if (f) { fwrite(img.data(), 1, img.size(), f); fclose(f); } }
  walk(0);
  walk(EXT2_FLAG_IGNORE_CSUM_ERRORS);
  return 0; }
