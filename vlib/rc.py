"""Compile and drive the rapidcheck harnesses (harness/*.cc) against a sanitised build of /repo's libraries."""
import os, sys, subprocess, hashlib, json, tempfile, shutil, fcntl
from . import build
from .core import Result, VERIF
from . import run as vrun

HARN = os.path.join(VERIF, 'harness')

def compile_harness(name, variant='asan', extra_flags=(), extra_libs=()):
    bdir = build.ensure(variant)
    src = os.path.join(HARN, name + '.cc')
    h = hashlib.sha256()
    for p in [src, os.path.join(HARN, 'pbt.h')]:
        h.update(open(p, 'rb').read())
    h.update(repr((extra_flags, extra_libs)).encode())
    outd = os.path.join(os.path.dirname(bdir), 'harness'); os.makedirs(outd, exist_ok=True)
    exe = os.path.join(outd, '%s-%s' % (name, h.hexdigest()[:12]))
    if os.path.exists(exe): return exe
    lock = open(exe + '.lock', 'w'); fcntl.flock(lock, fcntl.LOCK_EX)
    try:
        if os.path.exists(exe): return exe
        san = {'asan': ['-fsanitize=address,undefined', '-fno-sanitize=alignment,function,vptr'], 'tsan': ['-fsanitize=thread'], 'plain': []}[variant]
        cmd = ['clang++', '-std=gnu++17', '-g', '-O1', '-fno-omit-frame-pointer'] + san + list(extra_flags) + [
            '-I', os.path.join(bdir, 'lib'), '-I', os.path.join(build.srcdir(bdir), 'lib'), '-I', HARN, '-DHAVE_CONFIG_H',
            src, '-o', exe + '.tmp'] + [os.path.join(bdir, 'lib', l) for l in ('libext2fs.a', 'libcom_err.a')] + list(extra_libs) + ['-lrapidcheck', '-lpthread']
        p = subprocess.run(cmd, stdout=subprocess.PIPE, stderr=subprocess.STDOUT)
        if p.returncode:
            raise RuntimeError('harness compile failed: %s\n%s' % (' '.join(cmd), p.stdout.decode()[-4000:]))
        os.rename(exe + '.tmp', exe)
        return exe
    finally:
        fcntl.flock(lock, fcntl.LOCK_UN); lock.close()

SAN_ENV = {'ASAN_OPTIONS': 'detect_leaks=0:allocator_may_return_null=1:exitcode=99:abort_on_error=0',
           'UBSAN_OPTIONS': 'print_stacktrace=1:halt_on_error=0',
           'TSAN_OPTIONS': 'exitcode=97:halt_on_error=1:second_deadlock_stack=1'}

def replay(exe, case_text, env=None, cwd=None, cpu=120):
    """-> (failed: bool, tag, detail, sanitizer: bool, raw)"""
    d = vrun.scratch()
    fd, p = tempfile.mkstemp(dir=d, suffix='.case'); os.write(fd, case_text.encode()); os.close(fd)
    e = dict(SAN_ENV); e.update(env or {})
    r = vrun.run([exe, '--replay', p], env=e, cpu=cpu, merge=True, cwd=cwd)
    os.unlink(p)
    out = r.out
    if r.rc == 0 and 'REPLAY-OK' in out: return (False, '', '', False, out)
    if r.rc == 1 and 'REPLAY-FAIL' in out:
        line = [l for l in out.splitlines() if l.startswith('REPLAY-FAIL')][0]
        tag = line.split('tag=', 1)[1].split(' detail=', 1)[0]; detail = line.split(' detail=', 1)[1] if ' detail=' in line else ''
        return (True, tag, detail, False, out)
    # sanitizer abort / signal
    kind = 'signal%s' % r.sig if r.sig else 'exit%s' % r.rc
    for l in out.splitlines():
        if 'ERROR: AddressSanitizer' in l or 'runtime error:' in l or 'WARNING: ThreadSanitizer' in l:
            kind = l.strip()[:200]; break
    return (True, 'sanitizer', kind, True, out)

def ddmin_ops(exe, case_text, env=None, cwd=None, want_tag=None, budget=300):
    """driver-side delta debugging over 'op' lines (for sanitizer aborts, which bypass rapidcheck shrinking)"""
    lines = case_text.splitlines(); head = [l for l in lines if not l.startswith('op')]; ops = [l for l in lines if l.startswith('op')]
    def fails(o):
        f = replay(exe, '\n'.join(head + o) + '\n', env, cwd)
        return f[0] and (want_tag is None or f[1] == want_tag)
    n = 2; calls = 0
    while len(ops) >= 2 and calls < budget:
        chunk = max(1, len(ops) // n); reduced = False
        for i in range(0, len(ops), chunk):
            cand = ops[:i] + ops[i + chunk:]
            calls += 1
            if cand and fails(cand):
                ops = cand; n = max(n - 1, 2); reduced = True; break
        if not reduced:
            if chunk == 1: break
            n = min(n * 2, len(ops))
    return '\n'.join(head + ops) + '\n'

def run_harness(exe, seed, nworkers, max_success, max_size, known_tags=(), env=None, cwd=None, cpu=3600, confirm=3):
    """Run nworkers rapidcheck processes with derived seeds. Returns Result.
    Violations are dicts obs={tag, detail, sanitizer}, case={harness, text}."""
    d = vrun.scratch()
    procs = []
    for w in range(nworkers):
        out = os.path.join(d, 'pbt.%d.%d.json' % (os.getpid(), w)); ring = os.path.join(d, 'ring.%d.%d' % (os.getpid(), w))
        e = dict(vrun.BASE_ENV); e.update(SAN_ENV); e.update(env or {})
        e.update({'RC_PARAMS': 'seed=%d max_success=%d max_size=%d' % ((seed * 1000003 + w * 7919 + 1) & 0x7fffffffffffffff, max_success, max_size),
                  'PBT_OUT': out, 'PBT_RING': ring, 'PBT_KNOWN': '\x1f'.join(known_tags)})
        lg = open(os.path.join(d, 'harness.%d.%d.log' % (os.getpid(), w)), 'wb')
        p = subprocess.Popen([exe], env=e, cwd=cwd, stdout=lg, stderr=subprocess.STDOUT, stdin=subprocess.DEVNULL)
        procs.append((p, out, ring, lg))
    res = Result()
    for w, (p, out, ring, lg) in enumerate(procs):
        p.wait(); lg.close()
        j = None
        try:
            j = json.load(open(out))
        except Exception:
            pass
        fail_text = None; sanit = False
        if j is not None:
            res.evaluations += j['evaluations']; res.nontrivial |= set(j['nontrivial'])
            for k, v in j['classes'].items(): res.count(k, v)
            for k, v in j['known_hits'].items(): res.known_hits['tag:' + k] = res.known_hits.get('tag:' + k, 0) + v
            if len(res.samples) < 6: res.samples += j['samples'][:2]
            if not j['ok']: fail_text = j['fail_case']
        else:
            # died without summary: sanitizer abort or signal; the ring holds the case that was running
            try: fail_text = open(ring).read()
            except Exception: fail_text = None
            sanit = True
            if not fail_text:
                res.notes.append('worker %d died (rc=%s) without case; log tail: %s' % (w, p.returncode, open(lg.name, 'rb').read()[-500:].decode('latin-1')))
                raise RuntimeError('harness worker died before first case: ' + res.notes[-1])
        if fail_text:
            # confirm 3x through the replay path (bypasses rapidcheck)
            reps = [replay(exe, fail_text, env, cwd) for _ in range(confirm)]
            if not all(r[0] for r in reps):
                res.flaky += 1; res.notes.append('non-reproducible failure: %r' % (reps[0][1:3],)); continue
            tag, detail = reps[0][1], reps[0][2]
            if reps[0][3] or sanit:
                fail_text = ddmin_ops(exe, fail_text, env, cwd, want_tag=tag)
                rr = replay(exe, fail_text, env, cwd); tag, detail = rr[1], rr[2] + '\n' + rr[4][-3000:]
            res.violations.append(dict(obs=dict(tag=tag, detail=detail, sanitizer=bool(reps[0][3])),
                                       case=dict(harness=os.path.basename(exe).rsplit('-', 1)[0], text=fail_text)))
    return res
