"""Shared oracles for the tool-level checks: tree digests (through the independent reader), image block diffs, std replay plumbing."""
import os, json, glob, hashlib, shutil
from . import core, e4ref, run as vrun, fsgen

S_IFDIR = 0o040000; S_IFREG = 0o100000; S_IFLNK = 0o120000

def tree_digest(img, fields=('type', 'mode', 'uid', 'gid', 'nlink', 'size', 'sha', 'target', 'rdev', 'xattr'), skip_lost_found=False, offset=0):
    """path -> tuple-able dict of exactly the attributes in `fields`, plus 'links' = the sorted set of paths sharing the inode (hard-link group).
    Inode numbers are not part of the digest (resize2fs may renumber)."""
    r = e4ref.Reader(img, offset) if offset else e4ref.Reader(img)
    d = r.digest(skip_lost_found=skip_lost_found)
    byino = {}
    for p, rec in d.items():
        if 'ino' in rec: byino.setdefault(rec['ino'], []).append(p)
    out = {}
    for p, rec in d.items():
        o = {k: rec[k] for k in fields if k in rec}
        if 'bad_inode' in rec: o['bad_inode'] = rec['bad_inode']
        grp = byino.get(rec.get('ino'), [p])
        if len(grp) > 1 and rec.get('type') != S_IFDIR: o['links'] = sorted(grp)
        out[p] = o
    return out, r.errors

def digest_diff(a, b, limit=6):
    diffs = []
    for p in sorted(set(a) | set(b)):
        if p not in a: diffs.append('appeared: %r %r' % (p, b[p]))
        elif p not in b: diffs.append('vanished: %r %r' % (p, a[p]))
        elif a[p] != b[p]:
            ks = [k for k in set(a[p]) | set(b[p]) if a[p].get(k) != b[p].get(k)]
            diffs.append('changed: %r %s' % (p, ', '.join('%s %r->%r' % (k, a[p].get(k), b[p].get(k)) for k in sorted(ks))))
        if len(diffs) >= limit: break
    return diffs

def changed_blocks(a, b, bs):
    """indices of blocks that differ between files a and b (common prefix; a length difference counts as one extra entry -1)"""
    out = []
    with open(a, 'rb') as fa, open(b, 'rb') as fb:
        i = 0
        while True:
            ca = fa.read(1 << 20); cb = fb.read(1 << 20)
            if not ca and not cb: break
            if ca != cb:
                n = max(len(ca), len(cb))
                for o in range(0, n, bs):
                    if ca[o:o + bs] != cb[o:o + bs]: out.append(i + o // bs)
            i += (1 << 20) // bs
    return out

def ref_clean(img, offset=0):
    """-> (status, findings) status in ok|broken|unsupported|error as judged by the independent checker"""
    try:
        f = e4ref.Checker(img, offset).run() if offset else e4ref.Checker(img).run()
    except e4ref.Unsupported as e:
        return 'unsupported', [str(e)]
    except Exception as e:
        return 'error', [repr(e)[:200]]
    return ('broken' if f else 'ok'), [repr(x) for x in f[:6]]

def fsck_lines(out, n=6):
    return [l for l in out.splitlines() if l and not l.startswith(('Pass ', 'e2fsck ')) and 'WARNING' not in l][:n]

# ---- std replay plumbing for Hypothesis checks: module has body(case, env), envinit(widx) ----
def replay_tier(ctx, body, envinit):
    env = None
    for p in sorted(glob.glob(os.path.join(core.VERIF, 'replays', ctx.prop, '*.json'))):
        j = json.load(open(p)); env = env or envinit(99)
        obs = body(j['case'], env)[0]
        ctx.res.count('replay:' + ('fail' if obs else 'pass'))
        if obs: obs['replay_of'] = os.path.basename(p); ctx.res.violations.append(dict(obs=obs, case=j['case']))
    if env is not None and env.get('_cleanup'): env['_cleanup']()

def replay_file(ctx, path, body, envinit):
    j = json.load(open(path)); obs = body(j['case'], envinit(99))[0]
    if obs:
        e = ctx.classify(obs)
        if e: print('KNOWN-FINDING: property=%s %s [%s]' % (ctx.prop, e['what'], e['id'])); return 0
        print(json.dumps(obs, indent=1, default=str)); print('VIOLATION property=%s replay=%s' % (ctx.prop, path)); return 1
    print('replay passes: %s' % path); return 0

def sb_fields(img, offset=0):
    """independent superblock parse -> dict (subset used by C07/C08/C11/C20)"""
    import struct
    with open(img, 'rb') as f:
        f.seek(offset + 1024); sb = f.read(1024)
    g = lambda o, fmt: struct.unpack_from(fmt, sb, o)[0]
    d = dict(inodes=g(0, '<I'), blocks=g(4, '<I'), r_blocks=g(8, '<I'), free_blocks=g(0xc, '<I'), free_inodes=g(0x10, '<I'), first_data=g(0x14, '<I'), log_bs=g(0x18, '<I'), log_cs=g(0x1c, '<I'),
             bpg=g(0x20, '<I'), cpg=g(0x24, '<I'), ipg=g(0x28, '<I'), mtime=g(0x2c, '<I'), wtime=g(0x30, '<I'), mnt_count=g(0x34, '<H'), max_mnt=g(0x36, '<h'), magic=g(0x38, '<H'), state=g(0x3a, '<H'), errors=g(0x3c, '<H'),
             lastcheck=g(0x40, '<I'), checkinterval=g(0x44, '<I'), creator_os=g(0x48, '<I'), rev=g(0x4c, '<I'), resuid=g(0x50, '<H'), resgid=g(0x52, '<H'), first_ino=g(0x54, '<I'), isize=g(0x58, '<H'), block_group_nr=g(0x5a, '<H'),
             compat=g(0x5c, '<I'), incompat=g(0x60, '<I'), rocompat=g(0x64, '<I'), uuid=sb[0x68:0x78].hex(), label=sb[0x78:0x88].split(b'\0')[0], last_mounted=sb[0x88:0xc8].split(b'\0')[0],
             rsv_gdt=g(0xce, '<H'), journal_uuid=sb[0xd0:0xe0].hex(), journal_inum=g(0xe0, '<I'), journal_dev=g(0xe4, '<I'), last_orphan=g(0xe8, '<I'), hash_seed=sb[0xec:0xfc].hex(), def_hash=sb[0xfc], desc_size=g(0xfe, '<H'),
             default_mount_opts=g(0x100, '<I'), first_meta_bg=g(0x104, '<I'), mkfs_time=g(0x108, '<I'), blocks_hi=g(0x150, '<I'), r_blocks_hi=g(0x154, '<I'), min_extra=g(0x15c, '<H'), want_extra=g(0x15e, '<H'), flags=g(0x160, '<I'),
             raid_stride=g(0x164, '<H'), mmp_interval=g(0x166, '<H'), mmp_block=g(0x168, '<Q'), raid_stripe_width=g(0x170, '<I'), log_gpf=sb[0x174], kbytes_written=g(0x178, '<Q'),
             usr_q=g(0x240, '<I'), grp_q=g(0x244, '<I'), overhead=g(0x248, '<I'), backup_bgs=struct.unpack_from('<2I', sb, 0x24c), mount_opts=sb[0x200:0x240].split(b'\0')[0], prj_q=g(0x26c, '<I'), csum_seed=g(0x270, '<I'),
             orphan_inum=g(0x280, '<I'), checksum=g(0x3fc, '<I'), raw=sb)
    d['bs'] = 1024 << d['log_bs'] if d['log_bs'] < 8 else 0
    d['nblocks'] = d['blocks'] | ((d['blocks_hi'] << 32) if d['incompat'] & 0x80 else 0)
    return d

COMPAT = dict(dir_prealloc=1, imagic_inodes=2, has_journal=4, ext_attr=8, resize_inode=0x10, dir_index=0x20, sparse_super2=0x200, fast_commit=0x400, stable_inodes=0x800, orphan_file=0x1000)
INCOMPAT = dict(filetype=2, needs_recovery=4, journal_dev=8, meta_bg=0x10, extent=0x40, **{'64bit': 0x80}, mmp=0x100, flex_bg=0x200, ea_inode=0x400, dirdata=0x1000, metadata_csum_seed=0x2000, large_dir=0x4000, inline_data=0x8000, encrypt=0x10000, casefold=0x20000)
ROCOMPAT = dict(sparse_super=1, large_file=2, huge_file=8, uninit_bg=0x10, dir_nlink=0x20, extra_isize=0x40, quota=0x100, bigalloc=0x200, metadata_csum=0x400, read_only=0x1000, project=0x2000, verity=0x8000, orphan_present=0x10000)
def has_feature(sb, name):
    if name in COMPAT: return bool(sb['compat'] & COMPAT[name])
    if name in INCOMPAT: return bool(sb['incompat'] & INCOMPAT[name])
    if name in ROCOMPAT: return bool(sb['rocompat'] & ROCOMPAT[name])
    raise KeyError(name)
def feature_set(sb):
    return sorted([n for n, b in COMPAT.items() if sb['compat'] & b] + [n for n, b in INCOMPAT.items() if sb['incompat'] & b] + [n for n, b in ROCOMPAT.items() if sb['rocompat'] & b])
