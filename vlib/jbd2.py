"""Independent JBD2 journal writer + reference recovery model (written from the on-disk format; shares no code with e2fsprogs).

write_journal(img, spec) lays a journal described by `spec` into the blocks of the internal journal inode of `img`, marks the filesystem
as needing recovery and returns (expected, pool, info):  expected[blk] = bytes the block must hold after recovery (absent = untouched).
"""
import struct, hashlib
from . import e4ref
from .e4ref import crc32c, crc32_be

MAGIC = 0xC03B3998
MAGICB = struct.pack('>I', MAGIC)
F_ESCAPE, F_SAME_UUID, F_DELETED, F_LAST = 1, 2, 4, 8
DAMAGE = ['none', 'none', 'none', 'missing-commit', 'commit-wrong-seq', 'stale-tail', 'commit-csum', 'desc-csum', 'data-csum', 'revoke-csum', 'revoke-rcount', 'zeroed-desc']

def image_of(seed, t, i, bs, escape):
    h = hashlib.sha256(b'%d:%d:%d' % (seed, t, i)).digest()
    d = (h * (bs // 32 + 1))[:bs]
    if escape: d = MAGICB + d[4:]
    elif d[:4] == MAGICB: d = b'\x01' + d[1:]
    return d

def journal_map(img):
    """logical journal block -> physical block (internal journal, inode s_journal_inum)"""
    R = e4ref.Reader(img); fs = R.fs
    I = fs.read_inode(fs.journal_inum or 8); m = {}
    for lb, pb, ln, un in R.blockmap(I):
        for k in range(ln): m[lb + k] = pb + k
    return fs, [m[i] for i in range(len(m))] if all(i in m for i in range(len(m))) else None

def ext_journal_sb_block(bs): return 2 if bs == 1024 else 1

def write_journal(img, spec, pool, ext=None):
    """ext = path of an external journal device (mke2fs -O journal_dev): journal block numbers are then absolute block numbers of that device and the journal superblock follows its ext2 superblock"""
    if ext is None:
        fs, jmap = journal_map(img); j0 = 0
        if jmap is None: raise ValueError('journal has holes')
    else:
        fs = e4ref.Reader(img).fs; import os
        jmap = list(range(os.path.getsize(ext) // fs.bs)); j0 = ext_journal_sb_block(fs.bs)
    bs = fs.bs; f = open(img, 'r+b'); jf = f if ext is None else open(ext, 'r+b')
    def rb(p): jf.seek(p * bs); return jf.read(bs)
    def wb(p, d): assert len(d) == bs; jf.seek(p * bs); jf.write(d)
    jsb = bytearray(rb(jmap[j0]))
    if struct.unpack_from('>I', jsb, 0)[0] != MAGIC: raise ValueError('no journal superblock')
    jbs, maxlen, first = struct.unpack_from('>III', jsb, 12)
    if jbs != bs: raise ValueError('journal block size')
    maxlen = min(maxlen, len(jmap))
    fmt64, csum, async_c = spec['fmt64'], spec['csum'], spec['async'] and spec['csum'] != 1
    compat = 1 if csum == 1 else 0
    incompat = 1 | (2 if fmt64 else 0) | (4 if async_c else 0) | (8 if csum == 2 else 0) | (0x10 if csum == 3 else 0)
    struct.pack_into('>III', jsb, 0x24, compat, incompat, 0)
    jsb[0x50] = 4 if csum in (2, 3) else 0
    uuid = bytes(jsb[0x30:0x40]); seed = crc32c(0xffffffff, uuid)
    seq0 = spec['seq0'] & 0xffffffff or 1
    span = maxlen - first
    start = first + (spec['start'] % span if spec['start_mode'] == 0 else span - 1 - spec['start'] % min(14, span - 1))
    struct.pack_into('>II', jsb, 0x18, seq0, start)
    pos = [start]; wrapped = [False]; written = 0
    def nxt():
        p = pos[0]; pos[0] += 1
        if pos[0] >= maxlen: pos[0] = first; wrapped[0] = True
        return p
    def put(l, d): wb(jmap[l], bytes(d))
    tagsz = 16 if csum == 3 else (12 + (2 if csum == 2 else 0) - (0 if fmt64 else 4))
    tail = 4 if csum in (2, 3) else 0
    trans = spec['trans']; ntr = len(trans)
    dmg = DAMAGE[spec['damage'] % len(DAMAGE)]; dk = spec['damage_at'] % ntr
    info = dict(damage=dmg, damage_at=dk, revoke_hits=0, escapes=0, repeats=0, blocks_logged=0, descriptors=0, start=start, first=first, maxlen=maxlen)
    log = []       # per transaction: (seq, revokes, [(blk, image)], usable)
    poisoned = {}  # blk -> image that must never appear (content whose checksum was broken on purpose)
    applied = [False]
    total_needed = 2
    for t, tr in enumerate(trans):
        seq = (seq0 + t) & 0xffffffff
        blks = []; seen = set()
        for (pi, esc) in tr['blocks']:
            b = pool[pi % len(pool)]
            if b in seen: continue
            seen.add(b); blks.append((b, bool(esc)))
        revs_b = sorted(set(pool[i % len(pool)] for i in tr['rev_before'])); revs_a = sorted(set(pool[i % len(pool)] for i in tr['rev_after']))
        if written + len(blks) + 6 + len(blks) // max(1, tr['split']) > span - 2: break     # never overwrite the start of the log
        def revoke_block(revs, damage_this):
            nonlocal written
            if not revs: return
            rbk = bytearray(bs); rl = 8 if fmt64 else 4
            cap = (bs - 16 - tail) // rl; revs = revs[:cap]
            struct.pack_into('>IIII', rbk, 0, MAGIC, 5, seq, 16 + rl * len(revs))
            for i, r in enumerate(revs): struct.pack_into('>Q' if fmt64 else '>I', rbk, 16 + rl * i, r)
            if tail: struct.pack_into('>I', rbk, bs - 4, crc32c(seed, bytes(rbk)))
            if damage_this == 'revoke-csum' and tail: rbk[bs - 4] ^= 0x5a; applied[0] = True
            if damage_this == 'revoke-rcount': struct.pack_into('>I', rbk, 12, bs + 64); applied[0] = True        # r_count beyond the block
            put(nxt(), rbk); written += 1
        dmg_here = dmg if t == dk else 'none'
        revoke_block(revs_b, dmg_here)
        crc_v1 = 0xffffffff; logged = []; i = 0; first_tag_overall = True
        while i < len(blks) or (not blks and i == 0 and False):
            desc = bytearray(bs); struct.pack_into('>III', desc, 0, MAGIC, 1, seq); off = 12; dpos = nxt(); written += 1; info['descriptors'] += 1
            datas = []; ntag = 0
            while i < len(blks):
                need = tagsz + (16 if (ntag == 0 or not tr['same_uuid']) else 0)
                if off + need > bs - tail or (tr['split'] and ntag >= tr['split']): break
                b, esc = blks[i]; img_ = image_of(spec['seed'], t, i, bs, esc); stored = bytearray(img_); flags = 0
                if stored[:4] == MAGICB: flags |= F_ESCAPE; stored[:4] = b'\0\0\0\0'; info['escapes'] += 1
                if ntag > 0 and tr['same_uuid']: flags |= F_SAME_UUID
                c = crc32c(crc32c(seed, struct.pack('>I', seq)), bytes(stored))
                tagoff = off
                if csum == 3: struct.pack_into('>IIII', desc, off, b & 0xffffffff, flags, b >> 32, c)
                else:
                    struct.pack_into('>IHH', desc, off, b & 0xffffffff, (c & 0xffff) if csum == 2 else 0, flags)
                    if fmt64: struct.pack_into('>I', desc, off + 8, b >> 32)
                off += tagsz
                if not (flags & F_SAME_UUID): desc[off:off + 16] = uuid; off += 16
                datas.append((b, bytes(stored), img_, tagoff)); ntag += 1; i += 1
            # LAST_TAG on the final tag of this descriptor block
            b, stored, img_, tagoff = datas[-1]
            if csum == 3: struct.pack_into('>I', desc, tagoff + 4, struct.unpack_from('>I', desc, tagoff + 4)[0] | F_LAST)
            else: struct.pack_into('>H', desc, tagoff + 6, struct.unpack_from('>H', desc, tagoff + 6)[0] | F_LAST)
            if tail: struct.pack_into('>I', desc, bs - 4, crc32c(seed, bytes(desc)))
            if dmg_here == 'desc-csum' and tail and first_tag_overall: desc[bs - 4] ^= 0x33; applied[0] = True
            if dmg_here == 'zeroed-desc' and first_tag_overall: desc = bytearray(bs); applied[0] = True
            put(dpos, desc); crc_v1 = crc32_be(crc_v1, bytes(desc))
            for j, (b, stored, img_, tagoff) in enumerate(datas):
                st = bytearray(stored)
                if dmg_here == 'data-csum' and csum in (2, 3) and first_tag_overall and j == 0:
                    st[100] ^= 0xff; bad = bytearray(st); applied[0] = True
                    if img_[:4] == MAGICB: bad[:4] = MAGICB
                    poisoned[b] = bytes(bad)
                put(nxt(), st); written += 1; crc_v1 = crc32_be(crc_v1, bytes(st)); logged.append((b, img_))
            first_tag_overall = False
        revoke_block(revs_a, 'none' if revs_b else dmg_here)
        cb = bytearray(bs)
        cseq = seq if dmg_here != 'commit-wrong-seq' else (seq + 7) & 0xffffffff
        struct.pack_into('>III', cb, 0, MAGIC, 2, cseq)
        struct.pack_into('>QI', cb, 0x30, 1700000000 + t * 5, 0)
        if csum == 1: cb[0x0c] = 1; cb[0x0d] = 4; struct.pack_into('>I', cb, 0x10, crc_v1)
        if csum in (2, 3): struct.pack_into('>I', cb, 0x10, crc32c(seed, bytes(cb)))
        if dmg_here == 'commit-csum' and csum in (1, 2, 3): cb[0x10] ^= 0x81; applied[0] = True
        if dmg_here in ('missing-commit', 'commit-wrong-seq'): applied[0] = True
        cpos = nxt(); written += 1
        if dmg_here == 'missing-commit': put(cpos, bytes(bs))
        else: put(cpos, cb)
        info['blocks_logged'] += len(logged)
        log.append(dict(seq=seq, t=t, revokes=set(revs_b) | set(revs_a), logged=logged))
    ntr = len(log)
    if ntr == 0: raise ValueError('nothing fits')
    if dk >= ntr or (not applied[0] and dmg != 'stale-tail'): dmg = 'none'      # the drawn damage had nothing to act on (no checksums / no revoke block / transaction did not fit)
    info['damage'] = dmg
    # what follows the head: zeroes, or a stale (older, lower-sequence but otherwise valid-looking) commit record
    if dmg == 'stale-tail':
        cb = bytearray(bs); struct.pack_into('>III', cb, 0, MAGIC, 2, (seq0 - 3) & 0xffffffff); put(pos[0], cb)
    else: put(pos[0], bytes(bs))
    if csum in (2, 3):
        struct.pack_into('>I', jsb, 0xfc, 0); struct.pack_into('>I', jsb, 0xfc, crc32c(0xffffffff, bytes(jsb[:1024])))
    put(j0, jsb)
    # filesystem superblock: needs_recovery (+ checksum)
    f.seek(1024); sb = bytearray(f.read(1024))
    struct.pack_into('<I', sb, 0x60, struct.unpack_from('<I', sb, 0x60)[0] | 4)
    if fs.has_mcsum: struct.pack_into('<I', sb, 0x3fc, crc32c(0xffffffff, bytes(sb[:0x3fc])))
    f.seek(1024); f.write(sb); f.close()
    if ext is not None: jf.close()
    # ---- reference model -------------------------------------------------------------------------------------
    # accepted prefix: all transactions, except that the one damaged in a way that ends the log (and everything after it) does not count
    enders = ('missing-commit', 'commit-wrong-seq', 'commit-csum', 'zeroed-desc')
    accepted = ntr if dmg not in enders else dk
    info['accepted'] = accepted; info['transactions'] = ntr; info['wrapped'] = wrapped[0]
    def model(upto):
        rev = {}
        for tr in log[:upto]:
            for r in tr['revokes']: rev[r] = tr['t']          # increasing t: the latest revoke wins
        exp = {}
        for tr in log[:upto]:
            for b, img_ in tr['logged']:
                if b in rev and rev[b] >= tr['t']: info['revoke_hits'] += 1; continue
                if b in exp: info['repeats'] += 1
                exp[b] = img_
        return exp
    expected = model(accepted)
    touched = set(b for tr in log for b, _ in tr['logged'])
    # every logged image of a block in any transaction (for the weak oracle of checksum damage inside the accepted part)
    candidates = {}
    for tr in log:
        for b, img_ in tr['logged']: candidates.setdefault(b, []).append(img_)
    info['weak'] = dmg in ('desc-csum', 'data-csum', 'revoke-csum', 'revoke-rcount') and csum in (2, 3) or dmg == 'revoke-rcount'
    info['log'] = [dict(seq=tr['seq'], blocks=len(tr['logged']), revokes=len(tr['revokes'])) for tr in log]
    return expected, touched, candidates, poisoned, info
