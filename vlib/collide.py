"""Names whose directory hash collides (same 32-bit major hash with the low bit masked, as the htree index compares it), found with the independent dirhash of e4ref.
pairs(hv, seed, unsigned) -> list of (name_a, name_b); cached per parameter set in the scratch build area (deterministic: the search order is fixed)."""
import os, json, fcntl
from . import e4ref, build

def pairs(hv, seed, unsigned, want=8, limit=400000):
    key = '%d-%s-%d' % (hv, ''.join('%08x' % x for x in seed) if isinstance(seed, (list, tuple)) else str(seed), int(bool(unsigned)))
    d = os.path.join(os.path.dirname(build.CACHE) if hasattr(build, 'CACHE') else '/var/tmp', 'e2verif-collide'); os.makedirs(d, exist_ok=True)
    p = os.path.join(d, key + '.json')
    if os.path.exists(p):
        try: return [tuple(x.encode('latin-1') for x in pr) for pr in json.load(open(p))]
        except Exception: pass
    with open(p + '.lock', 'w') as lk:
        fcntl.flock(lk, fcntl.LOCK_EX)
        if os.path.exists(p):
            try: return [tuple(x.encode('latin-1') for x in pr) for pr in json.load(open(p))]
            except Exception: pass
        seen = {}; out = []
        for i in range(limit):
            n = b'c%07x' % i; h = e4ref.dirhash(hv, n, seed, unsigned) & ~1
            if h in seen:
                out.append((seen[h], n))
                if len(out) >= want: break
            else: seen[h] = n
        with open(p + '.tmp', 'w') as f: json.dump([[a.decode('latin-1'), b.decode('latin-1')] for a, b in out], f)
        os.replace(p + '.tmp', p)
        return out
