"""Structure-aware corruption of ext2/3/4 images, with optional checksum fix-up done by the independent reader.

A mutation is a plain tuple  (cls, obj, field, kind, val, fixup)  of small integers/strings so that Hypothesis can
generate, shrink and serialise lists of them.  `obj` and `field` are reduced modulo the number of objects/fields found.
apply(img_path, mutations) edits the file in place and returns a list of human readable descriptions (one per applied mutation).
"""
import struct, os
from . import e4ref
from .e4ref import crc32c, crc16

SB_FIELDS = [('inodes_count', 0, 4), ('blocks_count', 4, 4), ('r_blocks', 8, 4), ('free_blocks', 0xc, 4), ('free_inodes', 0x10, 4), ('first_data_block', 0x14, 4),
             ('log_block_size', 0x18, 4), ('log_cluster_size', 0x1c, 4), ('blocks_per_group', 0x20, 4), ('clusters_per_group', 0x24, 4), ('inodes_per_group', 0x28, 4),
             ('mnt_count', 0x34, 2), ('magic', 0x38, 2), ('state', 0x3a, 2), ('errors', 0x3c, 2), ('rev_level', 0x4c, 4), ('first_ino', 0x54, 4), ('inode_size', 0x58, 2),
             ('feature_compat', 0x5c, 4), ('feature_incompat', 0x60, 4), ('feature_ro_compat', 0x64, 4), ('uuid', 0x68, 4), ('reserved_gdt', 0xce, 2),
             ('journal_inum', 0xe0, 4), ('journal_dev', 0xe4, 4), ('last_orphan', 0xe8, 4), ('hash_seed', 0xec, 4), ('def_hash', 0xfc, 1), ('desc_size', 0xfe, 2),
             ('first_meta_bg', 0x104, 4), ('jnl_blocks0', 0x10c, 4), ('blocks_count_hi', 0x150, 4), ('min_extra_isize', 0x15c, 2), ('want_extra_isize', 0x15e, 2),
             ('flags', 0x160, 4), ('log_groups_per_flex', 0x174, 1), ('usr_quota', 0x240, 4), ('grp_quota', 0x244, 4), ('backup_bgs', 0x24c, 4), ('prj_quota', 0x26c, 4),
             ('csum_seed', 0x270, 4), ('orphan_inum', 0x280, 4), ('checksum', 0x3fc, 4)]
GD_FIELDS = [('block_bitmap', 0, 4), ('inode_bitmap', 4, 4), ('inode_table', 8, 4), ('free_blocks', 0xc, 2), ('free_inodes', 0xe, 2), ('used_dirs', 0x10, 2),
             ('flags', 0x12, 2), ('bb_csum', 0x18, 2), ('ib_csum', 0x1a, 2), ('itable_unused', 0x1c, 2), ('checksum', 0x1e, 2)]
INO_FIELDS = [('mode', 0, 2), ('uid', 2, 2), ('size', 4, 4), ('atime', 8, 4), ('ctime', 0xc, 4), ('mtime', 0x10, 4), ('dtime', 0x14, 4), ('gid', 0x18, 2), ('links', 0x1a, 2),
              ('blocks', 0x1c, 4), ('flags', 0x20, 4), ('iblock0', 0x28, 4), ('iblock1', 0x2c, 4), ('iblock2', 0x30, 4), ('iblock3', 0x34, 4), ('iblock5', 0x3c, 4),
              ('iblock12', 0x58, 4), ('iblock13', 0x5c, 4), ('iblock14', 0x60, 4), ('generation', 0x64, 4), ('file_acl', 0x68, 4), ('size_high', 0x6c, 4),
              ('blocks_hi', 0x74, 2), ('file_acl_hi', 0x76, 2), ('csum_lo', 0x7c, 2), ('extra_isize', 0x80, 2), ('csum_hi', 0x82, 2)]
EXT_HDR = [('magic', 0, 2), ('entries', 2, 2), ('max', 4, 2), ('depth', 6, 2)]
EXT_LEAF = [('lblk', 0, 4), ('len', 4, 2), ('start_hi', 6, 2), ('start_lo', 8, 4)]
EXT_IDX = [('lblk', 0, 4), ('leaf_lo', 4, 4), ('leaf_hi', 8, 2)]
DIRENT = [('inode', 0, 4), ('rec_len', 4, 2), ('name_len', 6, 1), ('file_type', 7, 1), ('name0', 8, 1)]
XHDR = [('magic', 0, 4), ('refcount', 4, 4), ('blocks', 8, 4), ('hash', 12, 4)]
XENT = [('name_len', 0, 1), ('name_index', 1, 1), ('value_offs', 2, 2), ('value_inum', 4, 4), ('value_size', 8, 4), ('hash', 12, 4), ('name0', 16, 1)]
DXROOT = [('hash_version', 0x1c, 1), ('info_length', 0x1d, 1), ('indirect_levels', 0x1e, 1), ('limit', 0x20, 2), ('count', 0x22, 2), ('block0', 0x24, 4), ('hash1', 0x28, 4), ('block1', 0x2c, 4)]
DXNODE = [('fake_rec_len', 4, 2), ('limit', 8, 2), ('count', 10, 2), ('block0', 12, 4), ('hash1', 16, 4), ('block1', 20, 4)]
JSB = [('magic', 0, 4), ('blocktype', 4, 4), ('blocksize', 12, 4), ('maxlen', 16, 4), ('first', 20, 4), ('sequence', 24, 4), ('start', 28, 4), ('errno', 32, 4),
       ('feature_compat', 36, 4), ('feature_incompat', 40, 4), ('nr_users', 64, 4), ('csum_type', 0x50, 1), ('checksum', 0xfc, 4)]

POINTER_FIELDS = {'file_acl', 'iblock0', 'iblock1', 'iblock2', 'iblock3', 'iblock5', 'iblock12', 'iblock13', 'iblock14', 'start_lo', 'leaf_lo', 'block_bitmap', 'inode_bitmap', 'inode_table'}
CLASSES = ['sb', 'gd', 'bbitmap', 'ibitmap', 'inode', 'extent', 'ind', 'dirent', 'dx', 'xattr', 'special', 'jsb', 'bytes', 'blockop', 'dirloop', 'eadup', 'dirmap', 'geom', 'blockless']
KINDS = ['zero', 'ones', 'inc', 'dec', 'bitflip', 'random', 'swap', 'other_block', 'meta_block', 'out_of_range', 'small', 'wrap']
SUMMARY_CLASSES = ['bbitmap', 'ibitmap', 'gd_counts', 'gd_flags', 'csum_field']

class Img:
    def __init__(s, path):
        s.path = path; s.fs = e4ref.FS(path); s.f = open(path, 'r+b'); s.fs.f = s.f
        fs = s.fs
        s.inuse = []       # inode numbers in use
        s.dirs = []; s.extent_inodes = []; s.ind_inodes = []
        s.tree_blocks = [] # (pblk, ino, depth)
        s.ind_blocks = []  # (pblk, ino)
        s.dir_blocks = []  # (pblk, ino, lblk, kind) kind: leaf | dxroot | dxnode
        s.xattr_blocks = []; s.ibody_xattr = []
        s.data_blocks = []
        gds = fs.gds()
        rd = e4ref.Reader.__new__(e4ref.Reader); rd.fs = fs; rd.errors = []
        for ino in range(1, fs.inodes + 1):
            g = (ino - 1) // fs.ipg; idx = (ino - 1) % fs.ipg; gd = gds[g]
            if fs.has_gdcsum and (gd.flags & 1): continue
            if fs.has_gdcsum and idx >= fs.ipg - gd.itable_unused: continue
            try: I = fs.read_inode(ino)
            except Exception: continue
            if not I.mode or (I.links == 0 and ino >= fs.first_ino): continue
            if ino < fs.first_ino and ino not in (2, 7, 8, fs.journal_inum, fs.usr_q, fs.grp_q, fs.prj_q, fs.orphan_inum) : continue
            s.inuse.append(ino)
            if I.is_dir(): s.dirs.append(ino)
            if I.flags & e4ref.FL_INLINE: continue
            if I.fmt not in (e4ref.S_IFREG, e4ref.S_IFDIR, e4ref.S_IFLNK): continue
            if I.fmt == e4ref.S_IFLNK and I.size < 60: continue
            if ino == 7: continue
            try:
                if I.flags & e4ref.FL_EXTENTS:
                    s.extent_inodes.append(ino)
                    m = e4ref.walk_extents(fs, I, lambda a, b: None, lambda p, ino=ino: s.tree_blocks.append((p, ino)))
                else:
                    s.ind_inodes.append(ino)
                    m = e4ref.walk_blockmap(fs, I, lambda a, b: None, lambda p, ino=ino: s.ind_blocks.append((p, ino)))
            except Exception:
                m = []
            for lb, pb, ln, un in m[:64]:
                if ino >= fs.first_ino and len(s.data_blocks) < 4000: s.data_blocks.append(pb)
            if I.is_dir():
                lmap = {}
                for lb, pb, ln, un in m:
                    for k in range(min(ln, 4096)): lmap[lb + k] = pb + k
                nodes = set()
                if I.flags & e4ref.FL_INDEX and 0 in lmap:
                    try:
                        ck = e4ref.Checker.__new__(e4ref.Checker); ck.fs = fs; ck.findings = []
                        dx = ck.parse_dx_root(I, fs.rb(lmap[0]), lmap, fs.iseed(ino, I.gen)) or {}
                        nodes = dx.get('nodes', set())
                    except Exception: nodes = set()
                for lb in sorted(lmap):
                    kind = 'leaf'
                    if I.flags & e4ref.FL_INDEX: kind = 'dxroot' if lb == 0 else ('dxnode' if lb in nodes else 'leaf')
                    s.dir_blocks.append((lmap[lb], ino, lb, kind))
            if I.file_acl and fs.first_data <= I.file_acl < fs.blocks and I.file_acl not in s.xattr_blocks: s.xattr_blocks.append(I.file_acl)
        for ino in s.inuse:
            I = fs.read_inode(ino)
            if fs.isize > 128:
                base = 128 + I.extra
                if base + 4 <= fs.isize and struct.unpack_from('<I', I.raw, base)[0] == 0xEA020000: s.ibody_xattr.append(ino)
    def role(s, ino):
        fs = s.fs
        if ino == 7 and fs.compat & e4ref.C_RESIZE_INODE: return 'resize'
        if ino == fs.journal_inum and fs.compat & e4ref.C_HAS_JOURNAL: return 'journal'
        if ino in (fs.usr_q, fs.grp_q, fs.prj_q) and fs.rocompat & e4ref.R_QUOTA: return 'quota'
        if ino == fs.orphan_inum and fs.compat & e4ref.C_ORPHAN_FILE: return 'orphanfile'
        if ino == 2: return 'root'
        if ino == 1: return 'badblocks'
        if ino < fs.first_ino: return 'reserved'
        return ''
    def ino_tag(s, ino):
        r = s.role(ino); return '%d:%s' % (ino, r) if r else '%d' % ino
    # ---- raw access
    def rd(s, off, n): s.f.seek(off); return s.f.read(n)
    def wr(s, off, b): s.f.seek(off); s.f.write(b)
    def ino_off(s, ino):
        fs = s.fs; g = (ino - 1) // fs.ipg; idx = (ino - 1) % fs.ipg
        return fs.gds()[g].itable * fs.bs + idx * fs.isize
    def gd_off(s, g):
        fs = s.fs; return fs.gd_block(g) * fs.bs + (g % fs.dpb) * fs.desc
    def close(s): s.f.flush(); s.f.close()
    # ---- checksum fix-ups (format definitions; independent of libext2fs)
    def fix_sb(s):
        if not s.fs.has_mcsum: return
        sb = s.rd(1024, 1024); s.wr(1024 + 0x3fc, struct.pack('<I', crc32c(0xffffffff, sb[:0x3fc])))
    def fix_gd(s, g):
        fs = s.fs
        if not fs.has_gdcsum: return
        off = s.gd_off(g); raw = bytearray(s.rd(off, fs.desc))
        if fs.has_mcsum:
            raw[0x1e:0x20] = b'\0\0'; c = crc32c(crc32c(fs.seed, struct.pack('<I', g)), raw) & 0xffff
        else:
            c = crc16(0xffff, fs.uuid); c = crc16(c, struct.pack('<I', g)); c = crc16(c, raw[:0x1e])
            if fs.desc > 0x20 and fs.is64: c = crc16(c, raw[0x20:])
        s.wr(off + 0x1e, struct.pack('<H', c))
    def fix_bitmap(s, g, which):
        fs = s.fs
        if not fs.has_mcsum: return
        off = s.gd_off(g); raw = s.rd(off, fs.desc); gd = e4ref.GD(fs, g, raw)
        if which == 'b':
            bm = fs.rb(gd.bbitmap); c = crc32c(fs.seed, bm[:fs.cpg // 8]); lo, hi = 0x18, 0x38
        else:
            bm = fs.rb(gd.ibitmap); c = crc32c(fs.seed, bm[:fs.ipg // 8]); lo, hi = 0x1a, 0x3a
        s.wr(off + lo, struct.pack('<H', c & 0xffff))
        if fs.is64 and fs.desc >= 64: s.wr(off + hi, struct.pack('<H', c >> 16))
        s.fix_gd(g)
    def fix_inode(s, ino):
        fs = s.fs
        if not fs.has_mcsum: return
        off = s.ino_off(ino); raw = bytearray(s.rd(off, fs.isize))
        gen = struct.unpack_from('<I', raw, 0x64)[0]; extra = struct.unpack_from('<H', raw, 0x80)[0] if fs.isize > 128 else 0
        has_hi = fs.isize > 128 and extra >= 4
        raw[0x7c:0x7e] = b'\0\0'
        if has_hi: raw[0x82:0x84] = b'\0\0'
        c = crc32c(fs.iseed(ino, gen), raw)
        s.wr(off + 0x7c, struct.pack('<H', c & 0xffff))
        if has_hi: s.wr(off + 0x82, struct.pack('<H', c >> 16))
    def _iseed(s, ino):
        raw = s.rd(s.ino_off(ino), 128); return s.fs.iseed(ino, struct.unpack_from('<I', raw, 0x64)[0])
    def fix_extent_block(s, blk, ino):
        fs = s.fs
        if not fs.has_mcsum: return
        b = s.rd(blk * fs.bs, fs.bs); mx = struct.unpack_from('<H', b, 4)[0]; o = 12 + 12 * mx
        if o + 4 <= fs.bs: s.wr(blk * fs.bs + o, struct.pack('<I', crc32c(s._iseed(ino), b[:o])))
    def fix_dir_block(s, blk, ino, kind):
        fs = s.fs
        if not fs.has_mcsum: return
        b = s.rd(blk * fs.bs, fs.bs); seed = s._iseed(ino)
        if kind == 'leaf':
            if b[fs.bs - 12:fs.bs - 4] == struct.pack('<IHBB', 0, 12, 0, 0xDE):
                s.wr(blk * fs.bs + fs.bs - 4, struct.pack('<I', crc32c(seed, b[:fs.bs - 12])))
        else:
            off = 0x20 if kind == 'dxroot' else 8
            limit, count = struct.unpack_from('<HH', b, off); toff = off + limit * 8
            if toff + 8 <= fs.bs and count <= limit:
                c = crc32c(seed, b[:off + count * 8]); c = crc32c(c, b[toff:toff + 4]); c = crc32c(c, b'\0\0\0\0')
                s.wr(blk * fs.bs + toff + 4, struct.pack('<I', c))
    def fix_xattr_block(s, blk):
        fs = s.fs
        if not fs.has_mcsum: return
        t = bytearray(s.rd(blk * fs.bs, fs.bs)); t[0x10:0x14] = b'\0\0\0\0'
        s.wr(blk * fs.bs + 0x10, struct.pack('<I', crc32c(crc32c(fs.seed, struct.pack('<Q', blk)), t)))

def _mutate_value(old, size, kind, val, img, rnd_other=None):
    mask = (1 << (8 * size)) - 1
    k = KINDS[kind % len(KINDS)]
    if k == 'zero': return 0
    if k == 'ones': return mask
    if k == 'inc': return (old + 1 + (val % 3)) & mask
    if k == 'dec': return (old - 1 - (val % 3)) & mask
    if k == 'bitflip': return old ^ (1 << (val % (8 * size)))
    if k == 'random': return (val * 2654435761) & mask
    if k == 'small': return val % 70
    if k == 'swap': return rnd_other if rnd_other is not None else (old ^ 1)
    if k == 'other_block':
        return img.data_blocks[val % len(img.data_blocks)] & mask if img.data_blocks else (old + 7) & mask
    if k == 'meta_block':
        fs = img.fs; gd = fs.gds()[val % fs.ngroups]
        return [gd.itable, gd.bbitmap, gd.ibitmap, fs.first_data, gd.itable + 1][val % 5] & mask
    if k == 'out_of_range':
        # boundary values first: the first invalid block number (== blocks_count), one past it, then further out / all ones
        b = img.fs.blocks
        return [b, b + 1, b + val % 1000, mask, b + (val * 7919) % (1 << 20)][val % 5] & mask
    if k == 'wrap':
        # values that make 'offset + length' sums wrap around: just below 2^N and just above 2^(N-1)
        return [mask - val % 4096, mask - 3 - val % 64, (mask >> 1) + 1 + val % 4096, mask - val % 70000][val % 4] & mask
    return old

def _field(img, base, fields, field, kind, val, sibling_base=None):
    name, off, size = fields[field % len(fields)]
    old = int.from_bytes(img.rd(base + off, size), 'little')
    other = int.from_bytes(img.rd(sibling_base + off, size), 'little') if sibling_base is not None else None
    if name in POINTER_FIELDS and size >= 4 and val % 2 == 0:
        # block-number fields: half of the draws use pointer-specific values (first invalid block number, another file's block, fixed metadata) whatever kind was drawn
        kind = KINDS.index(['out_of_range', 'other_block', 'meta_block', 'out_of_range'][(val // 2) % 4]); val = val // 8
    new = _mutate_value(old, size, kind, val, img, other)
    img.wr(base + off, new.to_bytes(size, 'little'))
    return name, old, new

def apply(path, mutations):
    """apply mutations in order; returns list of descriptions. Never raises on weird images (returns what it could do)."""
    img = Img(path); fs = img.fs; desc = []
    try:
        for m in mutations:
            cls, obj, field, kind, val, fixup = m
            cls = CLASSES[cls % len(CLASSES)] if isinstance(cls, int) else cls
            try:
                d = _apply_one(img, cls, obj, field, kind, val, fixup)
            except (IndexError, struct.error, ValueError, ZeroDivisionError, OSError) as e:
                d = None
            if d: desc.append(d)
    finally:
        img.close()
    return desc

def _apply_one(img, cls, obj, field, kind, val, fixup):
    fs = img.fs; bs = fs.bs
    K = KINDS[kind % len(KINDS)]
    if cls == 'sb':
        n, o, v = _field(img, 1024, SB_FIELDS, field, kind, val)
        if fixup and n != 'checksum': img.fix_sb()
        return 'sb.%s %#x->%#x%s' % (n, o, v, ' +csum' if fixup else '')
    if cls == 'gd':
        g = obj % fs.ngroups; sib = img.gd_off((g + 1) % fs.ngroups)
        n, o, v = _field(img, img.gd_off(g), GD_FIELDS, field, kind, val, sib)
        if fixup and n != 'checksum': img.fix_gd(g)
        return 'gd[%d].%s %#x->%#x%s' % (g, n, o, v, ' +csum' if fixup else '')
    if cls in ('bbitmap', 'ibitmap'):
        g = obj % fs.ngroups; gd = fs.gds()[g]
        blk = gd.bbitmap if cls == 'bbitmap' else gd.ibitmap
        nbits = (fs.cpg if cls == 'bbitmap' else fs.ipg)
        bit = (field * 131 + val) % nbits
        if kind % 4 == 2:
            # boundary-biased: the last valid bits of the group (the last group may be short and its bit count need not be a multiple of 8), or the very first ones
            valid = nbits
            if cls == 'bbitmap': valid = min(nbits, (fs.glast(g) - fs.gfirst(g) + 1 + fs.cratio - 1) // fs.cratio)
            bit = (valid - 1 - val % 9) if field % 3 else val % 3
            bit = max(0, min(bit, nbits - 1))
        if kind % 4 == 3:  # a run of bits
            ln = 1 + val % 40
            for b in range(bit, min(nbits, bit + ln)):
                o = blk * bs + (b >> 3); c = img.rd(o, 1)[0]; img.wr(o, bytes([c ^ (1 << (b & 7))]))
        else:
            o = blk * bs + (bit >> 3); c = img.rd(o, 1)[0]; img.wr(o, bytes([c ^ (1 << (bit & 7))]))
        if fixup: img.fix_bitmap(g, 'b' if cls == 'bbitmap' else 'i')
        return '%s[%d] bit %d flipped%s' % (cls, g, bit, ' +csum' if fixup else '')
    if cls == 'inode' or cls == 'special' or cls == 'blockless':
        if cls == 'special':
            cand = [i for i in (7, 8, fs.journal_inum, fs.usr_q, fs.grp_q, fs.prj_q, fs.orphan_inum, 2, 11) if i and i in img.inuse] or img.inuse
        elif cls == 'blockless':
            # inodes that have no block map of their own: fast symlinks, device nodes, fifos, sockets, inline-data files (their only block, if any, is an EA block)
            cand = []
            for i in img.inuse:
                if i < fs.first_ino: continue
                I_ = fs.read_inode(i)
                if I_.fmt in (0o020000, 0o060000, 0o010000, 0o140000) or (I_.fmt == e4ref.S_IFLNK and I_.size < 60) or (I_.flags & e4ref.FL_INLINE): cand.append(i)
            if not cand: return None
        else: cand = img.inuse
        ino = cand[obj % len(cand)]; sib = cand[(obj + 1) % len(cand)]
        n, o, v = _field(img, img.ino_off(ino), INO_FIELDS, field, kind, val, img.ino_off(sib))
        if fixup and not n.startswith('csum'): img.fix_inode(ino)
        return 'inode[%s].%s %#x->%#x%s' % (img.ino_tag(ino), n, o, v, ' +csum' if fixup else '')
    if cls == 'extent':
        # choose a node: inode roots and tree blocks
        nodes = [('root', ino) for ino in img.extent_inodes] + [('blk', t) for t in img.tree_blocks]
        if not nodes: return None
        what, x = nodes[obj % len(nodes)]
        if what == 'root': base = img.ino_off(x) + 0x28; ino = x
        else: base = x[0] * bs; ino = x[1]
        hdr = img.rd(base, 12); magic, ent, mx, depth = struct.unpack_from('<HHHH', hdr)
        if field % 5 == 0 or ent == 0:
            n, o, v = _field(img, base, EXT_HDR, val, kind, val)
            # 'dec' on eh_max / 'inc' on eh_entries: make the two disagree by exactly one, whatever their distance was
            if n == 'max' and KINDS[kind % len(KINDS)] == 'dec' and ent > 0: v = ent - 1; img.wr(base + 4, struct.pack('<H', v))
            if n == 'entries' and KINDS[kind % len(KINDS)] == 'inc': v = mx + 1; img.wr(base + 2, struct.pack('<H', v & 0xffff))
            n = 'hdr.' + n
        else:
            e = (field // 5) % max(ent, 1); fl = EXT_LEAF if depth == 0 else EXT_IDX
            sib = base + 12 + 12 * ((e + 1) % max(ent, 1))
            n, o, v = _field(img, base + 12 + 12 * e, fl, val // 7, kind, val, sib)
            n = 'ent[%d].%s' % (e, n)
        if fixup:
            if what == 'root': img.fix_inode(ino)
            else: img.fix_extent_block(x[0], ino)
        return 'extent %s ino[%s] %s %#x->%#x%s' % (what if what == 'root' else 'blk %d' % x[0], img.ino_tag(ino), n, o, v, ' +csum' if fixup else '')
    if cls == 'ind':
        cands = [('root', ino) for ino in img.ind_inodes] + [('blk', t) for t in img.ind_blocks]
        if not cands: return None
        what, x = cands[obj % len(cands)]
        if what == 'root':
            slot = field % 15; base = img.ino_off(x) + 0x28 + 4 * slot; ino = x
        else:
            raw = img.rd(x[0] * bs, bs); used = [i for i in range(bs // 4) if raw[4 * i:4 * i + 4] != b'\0\0\0\0'] or [0]
            slot = used[field % len(used)] if val % 4 else field % (bs // 4); base = x[0] * bs + 4 * slot; ino = x[1]
        old = int.from_bytes(img.rd(base, 4), 'little'); other = int.from_bytes(img.rd(base + (4 if slot % 2 == 0 else -4), 4), 'little')
        new = _mutate_value(old, 4, kind, val, img, other); img.wr(base, new.to_bytes(4, 'little'))
        if fixup and what == 'root': img.fix_inode(ino)
        return 'ind %s ino[%s] slot %d %#x->%#x' % (what, img.ino_tag(ino), slot, old, new)
    if cls == 'dirent':
        blks = [b for b in img.dir_blocks if b[3] == 'leaf' or b[3] == 'dxroot']
        if not blks: return None
        blk, ino, lb, kd = blks[obj % len(blks)]
        raw = img.rd(blk * bs, bs); ents = []; off = 0
        while off + 8 <= bs:
            i_, rl, nl, ft = struct.unpack_from('<IHBB', raw, off)
            if rl < 8 or rl % 4 or off + rl > bs: break
            ents.append(off); off += rl
        if not ents: return None
        e = ents[field % len(ents)]; sib = ents[(field + 1) % len(ents)]
        n, o, v = _field(img, blk * bs + e, DIRENT, val // 3, kind, val, blk * bs + sib)
        if fixup: img.fix_dir_block(blk, ino, 'leaf' if kd == 'leaf' else 'dxroot')
        return 'dirent dir %d blk %d(l%d) @%d .%s %#x->%#x%s' % (ino, blk, lb, e, n, o, v, ' +csum' if fixup else '')
    if cls == 'dx':
        blks = [b for b in img.dir_blocks if b[3] in ('dxroot', 'dxnode')]
        if not blks: return None
        blk, ino, lb, kd = blks[obj % len(blks)]
        fl = DXROOT if kd == 'dxroot' else DXNODE
        if field % 3 == 2:  # an arbitrary dx entry
            off = 0x20 if kd == 'dxroot' else 8
            cnt = struct.unpack_from('<H', img.rd(blk * bs + off + 2, 2))[0] or 1
            e = 1 + (val % max(1, min(cnt, (bs - off) // 8) - 1)) if cnt > 1 else 0
            base = blk * bs + off + 8 * e + (0 if val % 2 else 4)
            old = int.from_bytes(img.rd(base, 4), 'little'); new = _mutate_value(old, 4, kind, val, img, old ^ 0x10000); img.wr(base, new.to_bytes(4, 'little'))
            n = 'entry[%d].%s' % (e, 'hash' if val % 2 else 'block'); o, v = old, new
        else:
            n, o, v = _field(img, blk * bs, fl, val, kind, val)
        if fixup: img.fix_dir_block(blk, ino, kd)
        return 'dx %s dir %d blk %d .%s %#x->%#x%s' % (kd, ino, blk, n, o, v, ' +csum' if fixup else '')
    if cls == 'xattr':
        cands = [('blk', b) for b in img.xattr_blocks] + [('ibody', i) for i in img.ibody_xattr]
        if not cands: return None
        what, x = cands[obj % len(cands)]
        if what == 'blk':
            base = x * bs
            if field % 4 == 0: n, o, v = _field(img, base, XHDR, val, kind, val)
            else:
                ents = e4ref.xattr_entries(img.rd(base, bs), 32, 0, bs)
                if not ents: return None
                # 'wrap' values only make sense for sizes and offsets: aim them at e_value_size / e_value_offs
                fi = [4, 2, 4][(val // 5) % 3] if KINDS[kind % len(KINDS)] == 'wrap' else val // 5
                e = ents[field % len(ents)]; n, o, v = _field(img, base + e['off'], XENT, fi, kind, val)
            if fixup: img.fix_xattr_block(x)
            return 'xattr blk %d .%s %#x->%#x%s' % (x, n, o, v, ' +csum' if fixup else '')
        off = img.ino_off(x); raw = img.rd(off, fs.isize); extra = struct.unpack_from('<H', raw, 0x80)[0]; b0 = 128 + extra + 4
        ents = e4ref.xattr_entries(raw, b0, b0, fs.isize)
        if not ents or field % 5 == 0:
            o = int.from_bytes(raw[b0 - 4:b0], 'little'); v = _mutate_value(o, 4, kind, val, img); img.wr(off + b0 - 4, v.to_bytes(4, 'little')); n = 'ibody.magic'
        else:
            e = ents[field % len(ents)]; n, o, v = _field(img, off + e['off'], XENT, val // 5, kind, val)
        if fixup: img.fix_inode(x)
        return 'xattr ibody ino[%s] .%s %#x->%#x%s' % (img.ino_tag(x), n, o, v, ' +csum' if fixup else '')
    if cls == 'jsb':
        if not fs.journal_inum or fs.journal_inum not in img.inuse: return None
        J = fs.read_inode(fs.journal_inum)
        try:
            m = e4ref.walk_extents(fs, J, lambda a, b: None, lambda p: None) if J.flags & e4ref.FL_EXTENTS else e4ref.walk_blockmap(fs, J, lambda a, b: None, lambda p: None)
        except Exception: return None
        if not m or m[0][0] != 0: return None
        base = m[0][1] * bs
        name, off, size = JSB[field % len(JSB)]
        old = int.from_bytes(img.rd(base + off, size), 'big'); new = _mutate_value(old, size, kind, val, img); img.wr(base + off, new.to_bytes(size, 'big'))
        return 'jsb.%s %#x->%#x' % (name, old, new)
    if cls == 'bytes':
        # unstructured noise inside a metadata block
        pool = ([('itable', fs.gds()[g].itable + i) for g in range(fs.ngroups) for i in range(min(fs.itb, 2))] + [('tree', t[0]) for t in img.tree_blocks] + [('ind', t[0]) for t in img.ind_blocks] +
                [('dir', t[0]) for t in img.dir_blocks] + [('xattr', b) for b in img.xattr_blocks] + [('gdt', fs.gd_block(0)), ('sb', 1024 // bs)])
        what, blk = pool[obj % len(pool)]
        n = 1 + val % 8; off = (field * 97 + val) % bs
        if what == 'sb': off = (1024 % bs) + off % 1024
        for i in range(n):
            o = blk * bs + (off + i * (1 + kind)) % bs; c = img.rd(o, 1)[0]
            img.wr(o, bytes([(c ^ (1 << ((val + i) % 8))) if kind % 2 else (val * 31 + i * 17) & 0xff]))
        extra = ''
        if what == 'itable':
            for g in range(fs.ngroups):
                it = fs.gds()[g].itable
                if it <= blk < it + fs.itb:
                    i0 = g * fs.ipg + ((blk - it) * bs + off) // fs.isize + 1; i1 = g * fs.ipg + ((blk - it) * bs + min(bs - 1, off + n * (1 + kind))) // fs.isize + 1
                    extra = ' inodes[%s]' % ','.join(img.ino_tag(i) for i in range(i0, min(i1, i0 + 3) + 1)); break
        return 'bytes %s blk %d off %d n %d%s' % (what, blk, off, n, extra)
    if cls == 'dirloop':
        # a consistent-looking but unreachable structure: directory A is unlinked from its parent P and its '..' is pointed at one of its own subdirectories B
        # (link counts and checksums adjusted), so A and B form a loop that is cut off from the root. field%3: 0 = loop, 1 = only unlink A (plain unconnected directory), 2 = loop without link count fix
        def entries(blk):
            raw = img.rd(blk * bs, bs); out = []; off = 0
            while off + 8 <= bs:
                i_, rl, nl, ft = struct.unpack_from('<IHBB', raw, off)
                if rl < 8 or rl % 4 or off + rl > bs: break
                out.append((off, i_, raw[off + 8:off + 8 + nl])); off += rl
            return out
        first = {ino: blk for blk, ino, lb, kd in img.dir_blocks if lb == 0}
        dirset = set(first); cands = []
        for a in sorted(dirset):
            if a == 2: continue
            ea = entries(first[a])
            if len(ea) < 2 or ea[1][2] != b'..': continue
            subs = [i_ for blk, ino, lb, kd in img.dir_blocks if ino == a and kd in ('leaf', 'dxroot') for off, i_, nm in entries(blk) if i_ in dirset and nm not in (b'.', b'..') and i_ != a]
            if subs and ea[1][1] in dirset: cands.append((a, ea[1][1], subs))
        if not cands: return None
        a, p_, subs = cands[obj % len(cands)]; b_ = subs[val % len(subs)]; mode = field % 3
        hit = None
        for blk, ino, lb, kd in img.dir_blocks:
            if ino != p_ or kd not in ('leaf', 'dxroot'): continue
            for off, i_, nm in entries(blk):
                if i_ == a and nm not in (b'.', b'..'): hit = (blk, off, kd); break
            if hit: break
        if not hit: return None
        img.wr(hit[0] * bs + hit[1], struct.pack('<I', 0)); img.fix_dir_block(hit[0], p_, 'leaf' if hit[2] == 'leaf' else 'dxroot')
        def bump(ino, d):
            o = img.ino_off(ino) + 0x1a; v = int.from_bytes(img.rd(o, 2), 'little'); img.wr(o, ((v + d) & 0xffff).to_bytes(2, 'little')); img.fix_inode(ino)
        if mode != 1:
            # B gets an entry for A (carved out of the slack of one of its entries; linear directories only, an htree leaf would need the right hash position)
            slot = None
            for blk, ino, lb, kd in img.dir_blocks:
                if ino != b_ or kd != 'leaf' or (lb == 0 and fs.read_inode(b_).flags & 0x1000): continue
                raw = img.rd(blk * bs, bs)
                for off, i_, nm in entries(blk):
                    rl = struct.unpack_from('<H', raw, off + 4)[0]; used = (8 + len(nm) + 3) & ~3 if i_ else 0
                    if raw[off + 7] == 0xDE and i_ == 0: continue      # checksum tail
                    if rl - used >= 16: slot = (blk, off, rl, used); break
                if slot: break
            if not slot: return None
            blk, off, rl, used = slot
            if used: img.wr(blk * bs + off + 4, struct.pack('<H', used))
            img.wr(blk * bs + off + used, struct.pack('<IHBB', a, rl - used, 5, 2 if fs.incompat & 2 else 0) + b'zloop\0\0\0'); img.fix_dir_block(blk, b_, 'leaf')
            kd0 = [kd for blk, ino, lb, kd in img.dir_blocks if ino == a and lb == 0][0]
            img.wr(first[a] * bs + 12, struct.pack('<I', b_)); img.fix_dir_block(first[a], a, 'leaf' if kd0 == 'leaf' else 'dxroot')
            if mode == 0: bump(p_, -1); bump(b_, +1)
        return 'dirloop dir %d unlinked from %d%s' % (a, p_, '' if mode == 1 else ', .. -> its subdirectory %d%s' % (b_, '' if mode == 0 else ' (link counts not adjusted)'))
    if cls == 'eadup':
        # an xattr block, optionally first (consistently) shared by a second inode, is also claimed as the first data block of another regular file: one block with
        # several owners of different kinds (what pass 1B-1D must untangle in a single run). field%2: 0 = shared by two inodes first, 1 = single xattr owner
        if not img.xattr_blocks: return None
        blk = img.xattr_blocks[obj % len(img.xattr_blocks)]
        regs = []
        for ino in img.inuse:
            if ino < fs.first_ino: continue
            I = fs.read_inode(ino)
            if I.fmt == e4ref.S_IFREG and not (I.flags & (e4ref.FL_INLINE | 0x40000 | 0x200000)) and I.file_acl != blk: regs.append((ino, I))
        note = ''
        if field % 2 == 0:
            sh = [(ino, I) for ino, I in regs if I.file_acl == 0]
            if not sh: return None
            s_ino, S = sh[val % len(sh)]; o = img.ino_off(s_ino)
            img.wr(o + 0x68, struct.pack('<I', blk & 0xffffffff)); img.wr(o + 0x76, struct.pack('<H', blk >> 32))
            ib = int.from_bytes(img.rd(o + 0x1c, 4), 'little') + fs.bs * fs.cratio // 512; img.wr(o + 0x1c, struct.pack('<I', ib)); img.fix_inode(s_ino)
            rc_ = int.from_bytes(img.rd(blk * bs + 4, 4), 'little'); img.wr(blk * bs + 4, struct.pack('<I', rc_ + 1)); img.fix_xattr_block(blk)
            regs = [(i_, I_) for i_, I_ in regs if i_ != s_ino]; note = ', shared with ino %d (refcount %d)' % (s_ino, rc_ + 1)
        # the data-block claim
        tg = []
        for ino, I in regs:
            if I.flags & e4ref.FL_EXTENTS:
                magic, ents, mx, depth = struct.unpack_from('<HHHH', I.iblock, 0)
                if magic == 0xF30A and depth == 0 and ents >= 1: tg.append((ino, 'extent'))
            elif struct.unpack_from('<I', I.iblock, 0)[0]: tg.append((ino, 'ind'))
        if not tg: return None
        t_ino, how = tg[(val // 7) % len(tg)]; o = img.ino_off(t_ino) + 0x28
        if how == 'extent': img.wr(o + 12 + 6, struct.pack('<H', blk >> 32)); img.wr(o + 12 + 8, struct.pack('<I', blk & 0xffffffff))
        else: img.wr(o, struct.pack('<I', blk & 0xffffffff))
        img.fix_inode(t_ino)
        return 'eadup xattr blk %d%s also first data block of ino %d' % (blk, note, t_ino)
    if cls == 'dirmap':
        # the block map of a DIRECTORY inode: first extent (start / length / entry count) or first block pointer set to an invalid or boundary value, so that the directory
        # loses its first (often only) block
        ds = [d_ for d_ in img.dirs if d_ != 2 or field % 7 == 6]
        if not ds: return None
        ino = ds[obj % len(ds)]; I = fs.read_inode(ino); o = img.ino_off(ino) + 0x28
        if I.flags & e4ref.FL_INLINE: return None
        if I.flags & e4ref.FL_EXTENTS:
            magic, ents, mx, depth = struct.unpack_from('<HHHH', I.iblock, 0)
            if magic != 0xF30A or ents < 1: return None
            which = field % 4
            if depth:
                n, old, new = _field(img, o + 12, EXT_IDX, 1, kind, val)
            elif which == 0: n, old, new = _field(img, o + 12, EXT_LEAF, 3, kind, val)
            elif which == 1: n, old, new = _field(img, o, EXT_HDR, 1, KINDS.index('zero'), val)
            elif which == 2: n, old, new = _field(img, o + 12, EXT_LEAF, 1, KINDS.index('zero'), val)
            else: n, old, new = _field(img, o + 12, EXT_LEAF, 0, kind, val)
            what = 'extent'
        else:
            old = int.from_bytes(img.rd(o, 4), 'little'); new = _mutate_value(old, 4, kind, val, img); img.wr(o, new.to_bytes(4, 'little')); n = 'iblock0'; what = 'blockmap'
        if fixup: img.fix_inode(ino)
        return 'dirmap dir %d %s .%s %#x->%#x%s' % (ino, what, n, old, new, ' +csum' if fixup else '')
    if cls == 'geom':
        # coordinated superblock geometry: per-group sizes changed TOGETHER with the totals that have to agree with them, so that the superblock still passes the consistency checks of
        # ext2fs_open2 and the consumer behind them sees sizes no mke2fs would produce (per-group bitmaps larger than a block, tiny groups, ...)
        vals = [8 * bs + 8, 16 * bs, 8 * bs + 8 * (1 + val % 64), 32768, 65528, 65536 - 8, 8 * bs - 8, 8, 16, 8 * bs * 4]
        v = vals[(val // 3) % len(vals)]; which = field % 3
        if which == 0:      # inodes per group + inode count
            img.wr(1024 + 0x28, struct.pack('<I', v)); img.wr(1024 + 0x00, struct.pack('<I', (v * fs.ngroups) & 0xffffffff)); what = 'inodes_per_group=%d inodes_count=%d' % (v, v * fs.ngroups)
        elif which == 1:    # blocks/clusters per group (group count follows) + inode count
            ng = (fs.blocks - fs.first_data + v - 1) // v
            img.wr(1024 + 0x20, struct.pack('<I', v)); img.wr(1024 + 0x24, struct.pack('<I', v // fs.cratio if fs.cratio > 1 else v)); img.wr(1024 + 0x00, struct.pack('<I', (fs.ipg * ng) & 0xffffffff))
            what = 'blocks_per_group=%d (groups %d->%d) inodes_count=%d' % (v, fs.ngroups, ng, fs.ipg * ng)
        else:               # block count so that the group count changes by one, inode count following
            ng = max(1, fs.ngroups + (1 if val % 2 else -1)); nb = fs.first_data + ng * fs.bpg - (val % 7)
            img.wr(1024 + 0x04, struct.pack('<I', nb & 0xffffffff)); img.wr(1024 + 0x00, struct.pack('<I', (fs.ipg * ng) & 0xffffffff)); what = 'blocks_count=%d (groups %d->%d) inodes_count=%d' % (nb, fs.ngroups, ng, fs.ipg * ng)
        if fixup: img.fix_sb()
        return 'geom sb %s%s' % (what, ' +csum' if fixup else '')
    if cls == 'blockop':
        pool = [t[0] for t in img.tree_blocks] + [t[0] for t in img.ind_blocks] + [t[0] for t in img.dir_blocks] + img.xattr_blocks + [fs.gds()[g].bbitmap for g in range(fs.ngroups)] + [fs.gds()[0].itable]
        if len(pool) < 2: return None
        a = pool[obj % len(pool)]; b = pool[(obj + 1 + field) % len(pool)]
        if kind % 2: img.wr(a * bs, bytes(bs)); return 'block %d zeroed' % a
        img.wr(a * bs, img.rd(b * bs, bs)); return 'block %d overwritten with block %d' % (a, b)
    return None

# ---- damage confined to allocation summaries and checksum fields (C05 class 2) ----
def apply_summary(path, mutations):
    """mutations: (cls in SUMMARY_CLASSES index, obj, field, val, fixup). Only bitmaps bits of FREE objects' counters, counts, flags and checksum fields are touched:
    nothing that belongs to a file is altered."""
    img = Img(path); fs = img.fs; bs = fs.bs; desc = []
    try:
        for cls, obj, field, val, fixup in mutations:
            c = SUMMARY_CLASSES[cls % len(SUMMARY_CLASSES)]; g = obj % fs.ngroups; gd = fs.gds()[g]
            if c in ('bbitmap', 'ibitmap'):
                nbits = fs.cpg if c == 'bbitmap' else fs.ipg; blk = gd.bbitmap if c == 'bbitmap' else gd.ibitmap
                if fs.has_gdcsum and (gd.flags & (2 if c == 'bbitmap' else 1)): continue
                bit = (field * 131 + val) % nbits; o = blk * bs + (bit >> 3); cur = img.rd(o, 1)[0]; img.wr(o, bytes([cur ^ (1 << (bit & 7))]))
                if fixup: img.fix_bitmap(g, 'b' if c == 'bbitmap' else 'i')
                desc.append('%s[%d] bit %d flipped%s' % (c, g, bit, ' +csum' if fixup else ''))
            elif c == 'gd_counts':
                name, off, size = [('free_blocks', 0xc, 2), ('free_inodes', 0xe, 2), ('used_dirs', 0x10, 2), ('itable_unused', 0x1c, 2)][field % 4]
                if name == 'itable_unused' and not fs.has_gdcsum: continue
                base = img.gd_off(g); old = int.from_bytes(img.rd(base + off, size), 'little')
                new = (old + [1, -1, 5, -3][val % 4]) & 0xffff
                if name == 'itable_unused': new = min(new, old)   # claiming more unused inodes than there are would hide in-use inodes: that is not a summary-only change
                img.wr(base + off, new.to_bytes(size, 'little'))
                if fixup: img.fix_gd(g)
                desc.append('gd[%d].%s %d->%d%s' % (g, name, old, new, ' +csum' if fixup else ''))
            elif c == 'gd_flags':
                if not fs.has_gdcsum: continue
                base = img.gd_off(g); old = int.from_bytes(img.rd(base + 0x12, 2), 'little')
                # ITABLE_ZEROED, or INODE_UNINIT / BLOCK_UNINIT (also on groups that hold live inodes / blocks: the flag then claims the group's bitmap is unused -
                # a wrong allocation summary that e2fsck has to correct without touching what lives there)
                new = old ^ [4, 1, 4, 2, 1][val % 5]
                # INODE_UNINIT on group 0 (root and the reserved inodes live there) is known finding F-C05-3: excluded by construction except for one draw in 25
                if g == 0 and (new & 1) and not (old & 1) and val % 25 != 1: new = old ^ 4
                img.wr(base + 0x12, new.to_bytes(2, 'little'))
                if fixup: img.fix_gd(g)
                desc.append('gd[%d].flags %#x->%#x%s' % (g, old, new, ' +csum' if fixup else ''))
            elif c == 'csum_field':
                # stale checksum of an otherwise intact object
                which = field % 6
                if which == 0 and fs.has_mcsum: o = 1024 + 0x3fc; n = 4; what = 'sb.checksum'
                elif which == 1 and fs.has_gdcsum: o = img.gd_off(g) + 0x1e; n = 2; what = 'gd[%d].checksum' % g
                elif which == 2 and fs.has_mcsum and img.inuse: i = img.inuse[val % len(img.inuse)]; o = img.ino_off(i) + 0x7c; n = 2; what = 'inode[%d].csum_lo' % i
                elif which == 3 and fs.has_mcsum and img.dir_blocks:
                    blk, ino, lb, kd = img.dir_blocks[val % len(img.dir_blocks)]
                    if kd == 'leaf':
                        o = blk * bs + bs - 4; n = 4; what = 'dir %d blk %d tail csum' % (ino, blk)
                    else:
                        # htree root / interior node: struct dx_tail {reserved, checksum} follows the `limit` index entries
                        b = img.rd(blk * bs, bs)
                        co = 8 if kd == 'dxnode' else 0x18 + b[0x1d]
                        limit = struct.unpack_from('<H', b, co)[0]; to = co + limit * 8
                        if to + 8 > bs: continue
                        o = blk * bs + to + 4; n = 4; what = 'dir %d blk %d %s dx-tail csum' % (ino, blk, kd)
                elif which == 4 and fs.has_mcsum: o = img.gd_off(g) + 0x18; n = 2; what = 'gd[%d].bb_csum' % g
                elif which == 5 and fs.has_mcsum and img.tree_blocks:
                    blk, ino = img.tree_blocks[val % len(img.tree_blocks)]; b = img.rd(blk * bs, 12); mx = struct.unpack_from('<H', b, 4)[0]; o = blk * bs + 12 + 12 * mx; n = 4; what = 'extent blk %d csum' % blk
                else: continue
                old = int.from_bytes(img.rd(o, n), 'little'); new = old ^ (1 << (val % (8 * n))); img.wr(o, new.to_bytes(n, 'little'))
                if which in (4,) and fixup: img.fix_gd(g)
                desc.append('%s %#x->%#x' % (what, old, new))
    finally:
        img.close()
    return desc


import re as _re
def areas(desc, cfg_features=()):
    """coarse 'which object was damaged' labels of applied-mutation descriptions; used to key known findings by root-cause area"""
    out = set()
    for d in desc:
        m = _re.match(r'sb\.(\w+)', d)
        if m: out.add('sb.' + m.group(1)); continue
        m = _re.match(r'gd\[\d+\]\.(\w+)', d)
        if m: out.add('gd.' + m.group(1)); continue
        m = _re.match(r'(bbitmap|ibitmap)\[', d)
        if m: out.add(m.group(1)); continue
        m = _re.match(r'inode\[(\d+)(?::(\w+))?\]\.(\w+)', d)
        if m: out.add((m.group(2) + '-inode') if m.group(2) else 'inode.' + m.group(3)); continue
        m = _re.match(r'extent (root|blk \d+) ino\[(\d+)(?::(\w+))?\] (hdr|ent)\S*\.(\w+)', d)
        if m:
            if m.group(3): out.add(m.group(3) + '-inode')
            else: out.add('extent-%s.%s.%s' % ('root' if m.group(1) == 'root' else 'block', m.group(4), m.group(5)))
            continue
        m = _re.match(r'ind (root|blk) ino\[(\d+)(?::(\w+))?\]', d)
        if m: out.add((m.group(3) + '-inode') if m.group(3) else 'ind-' + m.group(1)); continue
        m = _re.match(r'dirent dir (\d+) .* \.(\w+) ', d)
        if m: out.add('dirent.' + m.group(2)); continue
        m = _re.match(r'dx (dxroot|dxnode) .* \.([\w\[\]\.]+) ', d)
        if m: out.add('dx.' + _re.sub(r'\[\d+\]', '', m.group(2))); continue
        m = _re.match(r'xattr blk \d+ \.(\w+)', d)
        if m: out.add('xattr-block.' + m.group(1)); continue
        m = _re.match(r'xattr ibody ino\[(\d+)(?::(\w+))?\] \.([\w\.]+)', d)
        if m: out.add((m.group(2) + '-inode') if m.group(2) else 'xattr-ibody.' + m.group(3)); continue
        m = _re.match(r'jsb\.(\w+)', d)
        if m: out.add('jsb.' + m.group(1)); continue
        m = _re.match(r'bytes (\w+) blk', d)
        if m:
            roles = _re.findall(r'\d+:(\w+)', d)
            if roles:
                for r in roles: out.add(r + '-inode')
            out.add('bytes-' + m.group(1)); continue
        if d.startswith('block '): out.add('blockop'); continue
        if d.startswith('eadup '): out.add('eadup-shared' if 'shared' in d else 'eadup'); continue
        if d.startswith('geom '): out.add('sb.geometry'); continue
        if d.startswith('dirmap '): out.add('dirmap'); continue
        if d.startswith('dirloop '): out.add('dirloop' if '..' in d else 'dir-unlinked'); continue
        out.add('other')
    return sorted(out)
