"""Generic driver for a rapidcheck-harness based check: replay tier, known-finding tags, generated search."""
import os, glob, json
from . import rc
from .core import VERIF

def known_tags(ctx):
    out = []
    for e in ctx.known:
        if e.get('status') != 'known': continue
        t = e.get('signature', {}).get('tag')
        if isinstance(t, str): out.append(t)
        elif isinstance(t, dict) and 'glob' in t: out.append(t['glob'])
    return out

def replay_tier(ctx, exes, env=None, cwd=None):
    """replays/<Cnn>/*.json: saved minimal reproductions. A file that fails and is not matched by a known finding is a violation."""
    n = 0
    for p in sorted(glob.glob(os.path.join(VERIF, 'replays', ctx.prop, '*.json'))):
        j = json.load(open(p)); case = j['case']
        if 'text' not in case: continue
        exe = exes.get(case.get('harness'))
        if exe is None: continue
        f = rc.replay(exe, case['text'], env, cwd)
        n += 1
        ctx.res.count('replay:' + ('fail' if f[0] else 'pass'))
        if f[0]:
            ctx.res.violations.append(dict(obs=dict(tag=f[1], detail=f[2], sanitizer=f[3], replay_of=os.path.basename(p)), case=case))
    return n

def replay_file(ctx, exes, path, env=None, cwd=None):
    j = json.load(open(path)); case = j['case']
    exe = exes[case['harness']]
    f = rc.replay(exe, case['text'], env, cwd)
    if f[0]:
        e = ctx.classify(dict(tag=f[1], detail=f[2], sanitizer=f[3]))
        if e is not None:
            print('KNOWN-FINDING: property=%s %s [%s]' % (ctx.prop, e['what'], e['id'])); return 0
        print('replay fails: tag=%s detail=%s' % (f[1], f[2][:2000]))
        print('VIOLATION property=%s replay=%s' % (ctx.prop, path)); return 1
    print('replay passes: %s' % path); return 0
