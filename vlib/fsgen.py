"""Construction of valid filesystems (mke2fs + debugfs population) over the configuration space."""
import os, random, struct, hashlib
from . import run as vrun

UUID = '6b0f5a3e-7a1c-4a5e-9b67-1d2c3e4f5a6b'
HASH_SEED = '3c2a1f0e-9d8c-4b7a-a695-84736251403f'

def mkfs(tools, img, blocks, bs=1024, features=None, extra=(), env=None, fstype=None, uuid=UUID, quiet=True):
    """Create a fresh image file of `blocks` fs blocks. Returns Proc."""
    if os.path.exists(img): os.unlink(img)
    with open(img, 'wb') as f: f.truncate(blocks * bs)
    cmd = [tools.mke2fs, '-F', '-q' if quiet else '-v', '-b', str(bs), '-U', uuid, '-E', 'hash_seed=' + HASH_SEED + ',lazy_itable_init=0,lazy_journal_init=0,root_owner=0:0']
    if fstype: cmd += ['-t', fstype]
    if features: cmd += ['-O', ','.join(features)]
    cmd += list(extra) + [img, str(blocks)]
    return vrun.run(cmd, env=env, merge=True, cpu=60)

def geometry_images(tools, outdir, n, rnd):
    """n small multi-group images with varied geometry and bitmap contents (for the threaded bitmap loader)."""
    made = []
    tries = 0
    while len(made) < n and tries < n * 6:
        tries += 1
        bs = rnd.choice([1024, 1024, 2048, 4096])
        groups = rnd.choice([1, 2, 3, 4, 5, 7, 8, 9, 15, 16, 17, 31, 33, 48, 64, 6, 12, 24, 40])
        bpg = rnd.choice([256, 512, 1024, 2048]) * (bs // 1024 if bs > 1024 and rnd.random() < 0.5 else 1)
        bpg = max(256, min(bpg, bs * 8)); bpg -= bpg % 8
        kind = rnd.choice(['ext4', 'ext4', 'ext4-noflex', 'ext4-uninit', 'ext2', 'ext3', 'bigalloc', 'meta_bg'])
        feats = []; extra = ['-g', str(bpg), '-N', str(max(16, groups * rnd.choice([8, 16, 32, 64])))]
        fstype = 'ext4'
        if kind == 'ext4': extra += ['-G', str(rnd.choice([1, 2, 4, 8, 16]))]
        elif kind == 'ext4-noflex': feats = ['^flex_bg']
        elif kind == 'ext4-uninit': feats = ['^metadata_csum', 'uninit_bg']; extra += ['-G', str(rnd.choice([2, 4, 16]))]
        elif kind == 'ext2': fstype = 'ext2'
        elif kind == 'ext3': fstype = 'ext3'
        elif kind == 'meta_bg': feats = ['meta_bg', '^resize_inode']
        elif kind == 'bigalloc':
            c = rnd.choice([2, 4, 16]); extra = ['-C', str(bs * c), '-g', str(bpg * c if bpg * c <= bs * 8 * c else bs * 8 * c), '-N', str(max(16, groups * 16))]
            feats = ['bigalloc']; bpg = int(extra[3])
        if rnd.random() < 0.3 and fstype == 'ext4': feats.append('^has_journal')
        blocks = groups * bpg + (rnd.choice([0, 0, bpg // 2, bpg // 3 + 60]) if groups > 1 else 0)
        if bs == 1024 and kind != 'bigalloc': blocks += 1
        img = os.path.join(outdir, 'img%d' % len(made))
        p = mkfs(tools, img, blocks, bs, feats, extra, fstype=fstype)
        if p.rc != 0:
            if os.path.exists(img): os.unlink(img)
            continue
        # vary bitmap contents: files, then random setb/freeb/seti/freei (loading does not care about consistency)
        cmds = []
        for i in range(rnd.randint(0, 6)):
            src = os.path.join(outdir, 'blob%d' % i)
            with open(src, 'wb') as f: f.write(os.urandom(1) * rnd.choice([10, 5000, 70000, 300000]))
            cmds.append('write %s f%d' % (src, i))
        for i in range(rnd.randint(0, 25)):
            b = rnd.randrange(1, blocks); c = rnd.choice([1, 1, 3, 17, 200])
            c = min(c, blocks - b)
            cmds.append('%s %d %d' % (rnd.choice(['setb', 'freeb']), b, c))
        ninodes = None
        for i in range(rnd.randint(0, 10)):
            cmds.append('%s <%d>' % (rnd.choice(['seti', 'freei']), rnd.randrange(12, max(13, groups * 8))))
        if cmds: tools.dbg(img, cmds, write=True)
        # padding bits of a bitmap block (behind clusters-/inodes-per-group) that are not all ones make the loader set the *_TAIL_PROBLEM flags: damage one
        # group's padding in about half of the images whose bitmaps have padding (the threaded loader must report the same flags from whichever thread meets it)
        tail = None
        if rnd.random() < 0.5:
            try:
                from . import e4ref as _e
                fs = _e.FS(img); gds = fs.gds(); g = rnd.randrange(fs.ngroups); which = rnd.choice('bi')
                used = (fs.cpg if which == 'b' else fs.ipg) // 8
                if used < fs.bs and not (fs.has_gdcsum and gds[g].flags & (2 if which == 'b' else 1)):
                    blk = gds[g].bbitmap if which == 'b' else gds[g].ibitmap
                    with open(img, 'r+b') as f:
                        f.seek(blk * fs.bs + used + rnd.randrange(fs.bs - used)); f.write(b'\x00')
                    tail = '%s%d' % (which, g)
            except Exception: pass
        made.append(dict(img=img, bs=bs, groups=groups, bpg=bpg, kind=kind, blocks=blocks, tail_damage=tail))
    return made

# =====================================================================================================
# Configuration space + population recipes for the tool-level checks
# =====================================================================================================
CONFIGS = [
    # name, fstype, bs, blocks, features, extra
    dict(name='ext4-1k', fstype='ext4', bs=1024, blocks=8193, features=[], extra=[]),
    dict(name='ext4-4k', fstype='ext4', bs=4096, blocks=4096, features=[], extra=[]),
    dict(name='ext4-2k-groups', fstype='ext4', bs=2048, blocks=6144, features=[], extra=['-g', '1024', '-G', '2']),
    dict(name='ext4-1k-manygroups', fstype='ext4', bs=1024, blocks=8193, features=[], extra=['-g', '512', '-G', '4', '-N', '512']),
    dict(name='ext4-1k-noflex-uninit', fstype='ext4', bs=1024, blocks=8193, features=['^flex_bg', '^metadata_csum', 'uninit_bg'], extra=['-g', '1024']),
    dict(name='ext4-1k-nocsum', fstype='ext4', bs=1024, blocks=8193, features=['^metadata_csum', '^uninit_bg'], extra=[]),
    dict(name='ext4-1k-32bit', fstype='ext4', bs=1024, blocks=8193, features=['^64bit'], extra=[]),
    dict(name='ext4-1k-inline', fstype='ext4', bs=1024, blocks=8193, features=['inline_data'], extra=['-I', '256']),
    dict(name='ext4-4k-inline-ea', fstype='ext4', bs=4096, blocks=4096, features=['inline_data', 'ea_inode'], extra=['-I', '512']),
    dict(name='ext4-1k-bigalloc', fstype='ext4', bs=1024, blocks=16384, features=['bigalloc'], extra=['-C', '4096']),
    dict(name='ext4-1k-metabg', fstype='ext4', bs=1024, blocks=8193, features=['meta_bg', '^resize_inode'], extra=['-g', '1024']),
    dict(name='ext4-1k-nojournal', fstype='ext4', bs=1024, blocks=8193, features=['^has_journal'], extra=[]),
    dict(name='ext4-1k-quota', fstype='ext4', bs=1024, blocks=8193, features=['quota', 'project'], extra=[]),
    dict(name='ext4-1k-sparse2', fstype='ext4', bs=1024, blocks=8193, features=['sparse_super2', '^resize_inode'], extra=['-g', '1024']),
    dict(name='ext4-1k-i128', fstype='ext4', bs=1024, blocks=8193, features=[], extra=['-I', '128']),
    dict(name='ext4-1k-largedir-tea', fstype='ext4', bs=1024, blocks=8193, features=['large_dir'], extra=[], post=['-E', 'hash_alg=tea']),
    dict(name='ext3-1k', fstype='ext3', bs=1024, blocks=8193, features=[], extra=[]),
    dict(name='ext3-4k', fstype='ext3', bs=4096, blocks=4096, features=[], extra=[]),
    dict(name='ext2-1k', fstype='ext2', bs=1024, blocks=8193, features=[], extra=[]),
    dict(name='ext2-1k-nodirindex-legacyhash', fstype='ext2', bs=1024, blocks=8193, features=['^dir_index'], extra=['-g', '2048']),
    dict(name='ext4-1k-oddtail', fstype='ext4', bs=1024, blocks=20004, features=[], extra=[]),          # last group of 3619 blocks: not a multiple of 8
    dict(name='ext2-1k-8192', fstype='ext2', bs=1024, blocks=8192, features=[], extra=[]),               # one group of 8191 blocks
    # 3 groups x 232 inodes: 58 inode-table blocks per group (not a multiple of the 8-block inode scan buffer), the larger populations spill into groups 1 and 2
    dict(name='ext4-1k-3groups-oddtable', fstype='ext4', bs=1024, blocks=24577, features=[], extra=['-N', '696']),
    dict(name='ext2-2k-rev0ish', fstype='ext2', bs=2048, blocks=4096, features=['^resize_inode', '^ext_attr', '^dir_index', '^sparse_super', '^large_file'], extra=[]),
]
# MMP makes every tool run sleep for the update interval: kept out of the general sweeps, used by C13 only
MMP_CONFIG = dict(name='ext4-1k-mmp', fstype='ext4', bs=1024, blocks=8193, features=['mmp'], extra=['-E', 'mmp_update_interval=1'])

def config_by_name(n):
    for c in CONFIGS:
        if c['name'] == n: return c
    if n == MMP_CONFIG['name']: return MMP_CONFIG      # not in CONFIGS (every tool run on it sleeps for seconds): only for the checks that ask for it by name
    raise KeyError(n)

def mk_config(tools, img, cfg, env=None):
    extra = list(cfg['extra'])
    p = mkfs(tools, img, cfg['blocks'], cfg['bs'], cfg['features'], extra, fstype=cfg['fstype'], env=env)
    if p.rc == 0 and cfg.get('post'):
        q = vrun.run([tools.tune2fs] + cfg['post'] + [img], merge=True)
        if q.rc != 0: p.rc = q.rc; p.out += q.out
    return p

def _blob(d, name, size, seed):
    p = os.path.join(d, name)
    if not os.path.exists(p):
        h = hashlib.sha256(('%s:%d' % (name, seed)).encode()).digest()
        data = (h * (size // 32 + 1))[:size]
        with open(p, 'wb') as f: f.write(data)
    return p

def populate_script(cfg, recipe, blobdir, rnd):
    """debugfs command list that creates every metadata class the feature set allows. recipe: dict of knobs."""
    c = []
    bs = cfg['bs']; ext = cfg['fstype'] == 'ext4'
    big = _blob(blobdir, 'big', recipe.get('big', 90000), 1); mid = _blob(blobdir, 'mid', 5000, 2); small = _blob(blobdir, 'small', 37, 3)
    c += ['write %s big' % big, 'write %s mid' % mid, 'write %s small' % small, 'write /dev/null empty']
    c += ['mkdir d1', 'mkdir d1/d2', 'mkdir d1/d2/d3', 'write %s d1/d2/d3/deep' % mid]
    c += ['symlink fastlink target-%s' % ('x' * 20), 'symlink d1/slowlink /%s' % ('y' * 200)]
    c += ['cd d1', 'mknod fifo p', 'mknod chr c 4 5', 'mknod blk b 8 1', 'cd /']
    # hard links: ln does not bump the count (documented), set it explicitly
    c += ['ln mid d1/mid-link', 'ln mid d1/d2/mid-link2', 'sif mid links_count 3']
    # sparse file and (on extent fs) a fragmented file with many extents
    sp = _blob(blobdir, 'sp', 3 * bs, 4)
    c += ['write %s sparse' % sp]
    if ext:
        n = recipe.get('frag', 60)
        c += ['write /dev/null frag', 'fallocate frag 0 %d' % (2 * n - 1)] + ['punch frag %d %d' % (2 * i + 1, 2 * i + 1) for i in range(n)]
        c += ['sif frag size %d' % (2 * n * bs)]
        # files whose in-inode extent root is exactly full (4 extents) / one short of full (3)
        c += ['write /dev/null frag4', 'fallocate frag4 0 6', 'punch frag4 1 1', 'punch frag4 3 3', 'punch frag4 5 5', 'sif frag4 size %d' % (7 * bs),
              'write /dev/null frag3', 'fallocate frag3 0 4', 'punch frag3 1 1', 'punch frag3 3 3', 'sif frag3 size %d' % (5 * bs)]
    else:
        c += ['write %s indirect' % _blob(blobdir, 'ind', 300 * bs // (bs // 1024) if bs > 1024 else 300 * 1024, 5)]
    # directories: many entries (indexed later by e2fsck -D when dir_index is on)
    nd = recipe.get('dirents', 120)
    c += ['mkdir many', 'cd many']
    for i in range(nd):
        ln = recipe.get('longnames'); nm = 'f%03d-%s' % (i, 'n' * (rnd.randrange(1, 60) if ln is True else ln if ln else 3))
        c.append('write /dev/null %s' % nm)
    c += ['cd /']
    if 'ext_attr' not in ' '.join(cfg['features']) or True:
        if '^ext_attr' not in cfg['features']:
            c += ['ea_set mid user.small v1', 'ea_set big user.medium %s' % ('m' * 200), 'ea_set d1 trusted.dirattr dv', 'ea_set small security.sel ctx']
            val = os.path.join(blobdir, 'eaval'); open(val, 'wb').write(b'E' * min(900, bs - 200))
            c += ['ea_set -f %s big user.blockval' % val]
            # xattrs (too large for the inode body: they live in an EA block) on inodes that have no blocks of their own
            c += ['ea_set fastlink user.onlink %s' % ('L' * 150), 'ea_set d1/chr user.ondev %s' % ('D' * 150), 'ea_set d1/fifo trusted.onfifo %s' % ('F' * 140)]
    if recipe.get('rm', True):
        c += ['write %s todel' % mid, 'rm todel', 'mkdir deldir', 'rmdir deldir']
    return c

def build_image(tools, img, cfg, recipe, blobdir, rnd, index_dirs=True):
    """mke2fs + populate + (optionally) e2fsck -fyD. Returns (ok, log)."""
    p = mk_config(tools, img, cfg)
    if p.rc != 0: return False, 'mke2fs: ' + p.out[-500:]
    script = populate_script(cfg, recipe, blobdir, rnd)
    q = tools.dbg(img, script, write=True, cpu=60)
    feats = cfg['features']
    opts = '-fyD' if (index_dirs and '^dir_index' not in feats) else '-fy'
    r = tools.fsck(img, opts)   # also brings quota files up to date (debugfs does not maintain them)
    if r.rc not in (0, 1): return False, 'e2fsck %s rc=%s: %s' % (opts, r.rc, r.out[-800:])
    r2 = tools.fsck(img, '-fn')
    if r2.rc != 0: return False, 'not clean after population: ' + r2.out[-800:]
    return True, ''

# ---- extra, generated population on top of a template (Hypothesis draws the op tuples) ----
# op = (kind, a, b): 0 dir with `a` entries of name length `b` (name prefix variant from b: plain / leading dots / dashes / high bytes); 1 regular file of size a*b bytes (+1 if b odd);
# 2 symlink of length a; 3 xattr (value length a) on a new file; 4 sparse file (hole of a blocks, then b bytes);
# 5 extent files mixing written and unwritten extents that are logically and physically adjacent, in a needlessly deep tree (root split with the debugfs extent editor);
# 6 split the extent-tree root of an existing template file (tree deeper than needed -> e2fsck offers to rebuild it);
# 8 a file with several hundred single-block extents (two-level extent tree at 1k blocks)
# 7 inode filler: use up (almost) all free inodes with directories and files spread over the groups, then free every third one and empty whole directory blocks;
#   one time in three instead: fill the inode tables of groups 0..g exactly up to the last inode of group g
NAME_PREFIX = ['', '', '', '.', '..', '..a', '...', '-', '~', '#', '\xc3\xa9', '\xff\xfe']
NKINDS = 9
def extras_script(ops, blobdir, bs):
    c = []
    for i, (kind, a, b) in enumerate(ops):
        kind %= NKINDS
        if kind == 0:
            n = 1 + a % 900; ln = 1 + b % 250; pfx = NAME_PREFIX[(a + b) % len(NAME_PREFIX)]
            c += ['mkdir x%d' % i, 'cd x%d' % i]
            for k in range(n):
                nm = (pfx + '%04d' % k + 'q' * ln)[:max(ln, len(pfx) + 4)]
                c.append('write /dev/null %s' % nm)
            if pfx.startswith('.'): c += ['write /dev/null %s' % pfx + 'data', 'write /dev/null ...', 'mkdir ..dir']
            c += ['cd /']
        elif kind == 1:
            size = (a % 400) * (1 + b % 3000) + (b & 1)
            c.append('write %s x%d' % (_blob(blobdir, 'x-%d' % size, size, size), i))
        elif kind == 2:
            c.append('symlink x%d %s' % (i, 't' * (1 + a % 1000)))
        elif kind == 3:
            # value length: anything up to 3000, or (one time in three) within 16 bytes of what exactly fills an EA block that holds this one attribute
            vl = a % 3000
            if b % 3 == 0: vl = max(0, bs - 32 - 16 - 4 - 4 - 16 + (a % 21))
            val = os.path.join(blobdir, 'xv%d' % vl); open(val, 'wb').write(b'V' * vl)
            c += ['write /dev/null x%d' % i, 'ea_set -f %s x%d user.x%d' % (val, i, b % 7)]
        elif kind == 4:
            hole = 1 + a % 300; tail = 1 + b % 5000
            p = os.path.join(blobdir, 'sp-%d-%d' % (hole, tail))
            if not os.path.exists(p):
                with open(p, 'wb') as f: f.seek(hole * bs); f.write(bytes([65 + (b % 20)]) * tail)
            c.append('write %s x%d' % (p, i))
        elif kind == 8:
            # a file with 340-700 single-block extents (every other block written): at 1k blocks its extent tree is two levels deep
            n = 340 + a % 360; p = os.path.join(blobdir, 'deepx-%d-%d' % (n, bs))
            if not os.path.exists(p):
                with open(p, 'wb') as f:
                    for k in range(n): f.seek(2 * k * bs); f.write(bytes([(k * 7 + 3) & 0xff | 1]) * bs)
            c.append('write %s x%d' % (p, i))
        elif kind == 6:
            for nm in (['/frag', '/big', '/sparse'][a % 3],):
                c += ['extent_open %s' % nm, 'root', 'split_node', 'extent_close']
    return c

def extras_apply(tools, img, ops, blobdir, bs, extent_fs=True):
    """runs the generated population; kind 5 needs a block lookup between two debugfs runs, kind 7 the current free inode count"""
    ops = [tuple(o) for o in ops]
    scr = extras_script(ops, blobdir, bs)
    if scr: tools.dbg(img, scr, write=True, cpu=180)
    for i, (kind, a, b) in enumerate(ops):
        if kind % NKINDS != 7: continue
        try:
            import struct as _st
            with open(img, 'rb') as fh: fh.seek(1024 + 0x10); free = _st.unpack('<I', fh.read(4))[0]
        except Exception: continue
        if b % 3 == 0:
            # boundary fill: files created in / take inodes first-fit from group 0 upwards, so creating exactly as many files as groups 0..g have free inodes puts the last inode of
            # group g into use; a few of the earliest are removed again so that the groups in front keep some free inodes
            try:
                from . import e4ref as _e4
                _fs = _e4.FS(img); gds = _fs.gds(); g = a % max(1, _fs.ngroups - 1); nb = sum(gd.free_inodes for gd in gds[:g + 1]); _fs.f.close()
            except Exception: continue
            if not (4 <= nb <= 1500): continue
            c = ['write /dev/null zb%d_%04d' % (i, k) for k in range(nb)] + ['rm zb%d_%04d' % (i, k) for k in range(1 + a % 5)]
            tools.dbg(img, c, write=True, cpu=300)
            continue
        n = min(free - (a % 4), 600)
        if n < 8: continue
        # directories are created in between the files (every 12th inode), so that they receive inode numbers all over the groups - also in groups a later shrink removes
        c = []; names = []; nd = 0
        for k in range(n):
            if k % 12 == 0: c.append('mkdir z%d_%03d' % (i, nd)); nd += 1
            else:
                dn = (k * 7) % nd; nm = 'z%d_%03d/e%04d%s' % (i, dn, k, 'w' * (40 + b % 150)); c.append('write /dev/null %s' % nm); names.append((dn, nm))
        # free inodes again: every file of every third directory (all its blocks but the first end up without a live entry), whole runs of names elsewhere, and every third file
        for j, (dn, nm) in enumerate(names):
            if dn % 3 == 1 or j % 3 == 0 or (j // 8) % 4 == 1: c.append('rm %s' % nm)
        tools.dbg(img, c, write=True, cpu=300)
    for i, (kind, a, b) in enumerate(ops):
        if kind % NKINDS != 5 or not extent_fs: continue
        nw = 4 + a % 20; nu = 4 + b % 40
        junk = _blob(blobdir, 'junk-%d' % bs, 96 * bs, 77); fdata = _blob(blobdir, 'mxf-%d-%d' % (nw, bs), nw * bs, 78 + nw)
        fsrc = os.path.join(blobdir, 'mxfsrc-%d-%d-%d' % (nw, nu, bs))
        if not os.path.exists(fsrc):
            with open(fsrc, 'wb') as f: f.write(open(fdata, 'rb').read()); f.truncate((nw + nu) * bs)
        gdata = _blob(blobdir, 'mxg-%d-%d' % (nw + nu, bs), (nw + nu) * bs, 79 + nu)
        # f: written blocks followed by preallocated (unwritten) blocks that sit on a deleted file's non-zero bytes; g: data file whose first part is turned into an unwritten extent
        filler = _blob(blobdir, 'filler-%d' % bs, 260 * bs, 76)      # soaks up the single-block holes of a fragmented template so that the files below are contiguous
        tools.dbg(img, ['write %s fill%d' % (filler, i), 'write %s junk%d' % (junk, i), 'rm junk%d' % i, 'write %s mxf%d' % (fsrc, i), 'fallocate mxf%d %d %d' % (i, nw, nw + nu - 1), 'write %s mxg%d' % (gdata, i)], write=True, cpu=60)
        r = tools.dbg(img, ['bmap mxg%d 0' % i, 'bmap mxg%d %d' % (i, nw + nu - 1)])
        try:
            v = [int(l.split()[-1]) for l in r.out.strip().splitlines() if l and l.split()[-1].isdigit()]; gp, ge = v[-2], v[-1]
        except Exception: continue
        ed = ['extent_open mxf%d' % i, 'root', 'split_node', 'extent_close']
        if ge - gp == nw + nu - 1:   # one contiguous extent: make its first part unwritten (as if preallocated and only the tail written)
            ed = ['extent_open mxg%d' % i, 'root', 'replace_node %d %d %d' % (nu, nw, gp + nu), 'insert_node --uninit 0 %d %d' % (nu, gp), 'root', 'split_node', 'extent_close'] + ed
        tools.dbg(img, ed, write=True, cpu=60)
