"""Construction of valid filesystems (mke2fs + debugfs population) over the configuration space."""
import os, random, struct, hashlib
from . import run as vrun

UUID = '6b0f5a3e-7a1c-4a5e-9b67-1d2c3e4f5a6b'
HASH_SEED = '3c2a1f0e-9d8c-4b7a-a695-84736251403f'

def mkfs(tools, img, blocks, bs=1024, features=None, extra=(), env=None, fstype=None, uuid=UUID, quiet=True):
    """Create a fresh image file of `blocks` fs blocks. Returns Proc."""
    if os.path.exists(img): os.unlink(img)
    with open(img, 'wb') as f: f.truncate(blocks * bs)
    cmd = [tools.mke2fs, '-F', '-q' if quiet else '-v', '-b', str(bs), '-U', uuid, '-E', 'hash_seed=' + HASH_SEED + ',lazy_itable_init=0,lazy_journal_init=0,root_owner=0:0']
    if fstype: cmd += ['-t', fstype]
    if features: cmd += ['-O', ','.join(features)]
    cmd += list(extra) + [img, str(blocks)]
    return vrun.run(cmd, env=env, merge=True, cpu=60)

def geometry_images(tools, outdir, n, rnd):
    """n small multi-group images with varied geometry and bitmap contents (for the threaded bitmap loader)."""
    made = []
    tries = 0
    while len(made) < n and tries < n * 6:
        tries += 1
        bs = rnd.choice([1024, 1024, 2048, 4096])
        groups = rnd.choice([1, 2, 3, 4, 5, 7, 8, 9, 15, 16, 17, 31, 33, 48, 64, 6, 12, 24, 40])
        bpg = rnd.choice([256, 512, 1024, 2048]) * (bs // 1024 if bs > 1024 and rnd.random() < 0.5 else 1)
        bpg = max(256, min(bpg, bs * 8)); bpg -= bpg % 8
        kind = rnd.choice(['ext4', 'ext4', 'ext4-noflex', 'ext4-uninit', 'ext2', 'ext3', 'bigalloc', 'meta_bg'])
        feats = []; extra = ['-g', str(bpg), '-N', str(max(16, groups * rnd.choice([8, 16, 32, 64])))]
        fstype = 'ext4'
        if kind == 'ext4': extra += ['-G', str(rnd.choice([1, 2, 4, 8, 16]))]
        elif kind == 'ext4-noflex': feats = ['^flex_bg']
        elif kind == 'ext4-uninit': feats = ['^metadata_csum', 'uninit_bg']; extra += ['-G', str(rnd.choice([2, 4, 16]))]
        elif kind == 'ext2': fstype = 'ext2'
        elif kind == 'ext3': fstype = 'ext3'
        elif kind == 'meta_bg': feats = ['meta_bg', '^resize_inode']
        elif kind == 'bigalloc':
            c = rnd.choice([2, 4, 16]); extra = ['-C', str(bs * c), '-g', str(bpg * c if bpg * c <= bs * 8 * c else bs * 8 * c), '-N', str(max(16, groups * 16))]
            feats = ['bigalloc']; bpg = int(extra[3])
        if rnd.random() < 0.3 and fstype == 'ext4': feats.append('^has_journal')
        blocks = groups * bpg + (rnd.choice([0, 0, bpg // 2, bpg // 3 + 60]) if groups > 1 else 0)
        if bs == 1024 and kind != 'bigalloc': blocks += 1
        img = os.path.join(outdir, 'img%d' % len(made))
        p = mkfs(tools, img, blocks, bs, feats, extra, fstype=fstype)
        if p.rc != 0:
            if os.path.exists(img): os.unlink(img)
            continue
        # vary bitmap contents: files, then random setb/freeb/seti/freei (loading does not care about consistency)
        cmds = []
        for i in range(rnd.randint(0, 6)):
            src = os.path.join(outdir, 'blob%d' % i)
            with open(src, 'wb') as f: f.write(os.urandom(1) * rnd.choice([10, 5000, 70000, 300000]))
            cmds.append('write %s f%d' % (src, i))
        for i in range(rnd.randint(0, 25)):
            b = rnd.randrange(1, blocks); c = rnd.choice([1, 1, 3, 17, 200])
            c = min(c, blocks - b)
            cmds.append('%s %d %d' % (rnd.choice(['setb', 'freeb']), b, c))
        ninodes = None
        for i in range(rnd.randint(0, 10)):
            cmds.append('%s <%d>' % (rnd.choice(['seti', 'freei']), rnd.randrange(12, max(13, groups * 8))))
        if cmds: tools.dbg(img, cmds, write=True)
        made.append(dict(img=img, bs=bs, groups=groups, bpg=bpg, kind=kind, blocks=blocks))
    return made
