"""Independent ext2/3/4 reader + consistency checker (the reference oracle of the tool-level checks).

Written from the on-disk format documentation (Documentation/filesystems/ext4, the ext4 wiki disk layout); it never links or
imports libext2fs.  CRCs come from native/crcref.so whose tables are derived from the polynomials at load time.
Unsupported features raise Unsupported (cases are counted, never judged)."""
import re, struct, ctypes, os, sys, collections, hashlib
_crc = ctypes.CDLL(os.path.join(os.path.dirname(os.path.dirname(os.path.abspath(__file__))), 'native', 'crcref.so'))
_crc.ref_crc32_be.restype = ctypes.c_uint32; _crc.ref_crc32_be.argtypes = [ctypes.c_uint32, ctypes.c_char_p, ctypes.c_size_t]
def crc32_be(c, b): return _crc.ref_crc32_be(c, bytes(b), len(b))
_crc.ref_crc32c.restype = ctypes.c_uint32; _crc.ref_crc32c.argtypes = [ctypes.c_uint32, ctypes.c_char_p, ctypes.c_size_t]
_crc.ref_crc16.restype = ctypes.c_uint16; _crc.ref_crc16.argtypes = [ctypes.c_uint16, ctypes.c_char_p, ctypes.c_size_t]
def crc32c(c, b): return _crc.ref_crc32c(c, bytes(b), len(b))
def crc16(c, b): return _crc.ref_crc16(c, bytes(b), len(b))

# feature bits
C_HAS_JOURNAL=4; C_EXT_ATTR=8; C_RESIZE_INODE=0x10; C_DIR_INDEX=0x20; C_SPARSE_SUPER2=0x200; C_ORPHAN_FILE=0x1000
I_FILETYPE=2; I_RECOVER=4; I_JOURNAL_DEV=8; I_META_BG=0x10; I_EXTENTS=0x40; I_64BIT=0x80; I_MMP=0x100; I_FLEX_BG=0x200
I_EA_INODE=0x400; I_CSUM_SEED=0x2000; I_LARGEDIR=0x4000; I_INLINE_DATA=0x8000; I_ENCRYPT=0x10000; I_CASEFOLD=0x20000
R_SPARSE_SUPER=1; R_LARGE_FILE=2; R_HUGE_FILE=8; R_GDT_CSUM=0x10; R_DIR_NLINK=0x20; R_EXTRA_ISIZE=0x40; R_QUOTA=0x100
R_BIGALLOC=0x200; R_METADATA_CSUM=0x400; R_PROJECT=0x2000; R_ORPHAN_PRESENT=0x10000
FL_INDEX=0x1000; FL_HUGE_FILE=0x40000; FL_EXTENTS=0x80000; FL_EA_INODE=0x200000; FL_INLINE=0x10000000
S_IFMT=0o170000; S_IFDIR=0o040000; S_IFREG=0o100000; S_IFLNK=0o120000
FT = {0o140000:6, 0o120000:7, 0o100000:1, 0o060000:4, 0o040000:2, 0o020000:3, 0o010000:5}

class Unsupported(Exception): pass
class Finding:
    def __init__(self, inv, msg): self.inv=inv; self.msg=msg
    def __repr__(self): return "%s: %s" % (self.inv, self.msg)

def _pow(n, b):
    while n > 1 and n % b == 0: n //= b
    return n == 1

class Inode:
    def __init__(s, fs, ino, raw):
        s.fs=fs; s.ino=ino; s.raw=raw
        u=struct.unpack_from
        s.mode=u('<H',raw,0)[0]; s.size=u('<I',raw,4)[0] | (u('<I',raw,0x6c)[0]<<32)
        s.links=u('<H',raw,0x1a)[0]; s.flags=u('<I',raw,0x20)[0]; s.dtime=u('<I',raw,0x14)[0]
        s.iblock=bytes(raw[0x28:0x64]); s.gen=u('<I',raw,0x64)[0]
        s.file_acl=u('<I',raw,0x68)[0] | (u('<H',raw,0x76)[0]<<32)
        s.blocks=u('<I',raw,0x1c)[0] | (u('<H',raw,0x74)[0]<<32)
        s.uid=u('<H',raw,2)[0] | (u('<H',raw,0x78)[0]<<16); s.gid=u('<H',raw,0x18)[0] | (u('<H',raw,0x7a)[0]<<16)
        s.mtime=u('<I',raw,0x10)[0]
        s.extra=u('<H',raw,0x80)[0] if len(raw)>128 else 0
    @property
    def fmt(s): return s.mode & S_IFMT
    def is_dir(s): return s.fmt==S_IFDIR

class FS:
    def __init__(s, path, offset=0):
        s.path=path; s.f=open(path,'rb'); s.off=offset
        s.f.seek(offset+1024); sb=s.f.read(1024); s.sbraw=sb
        if len(sb)<1024: raise Unsupported("short")
        g=lambda o,f: struct.unpack_from(f,sb,o)[0]
        if g(0x38,'<H')!=0xEF53: raise Unsupported("bad magic")
        s.log_bs=g(0x18,'<I'); s.bs=1024<<s.log_bs
        s.compat=g(0x5c,'<I'); s.incompat=g(0x60,'<I'); s.rocompat=g(0x64,'<I')
        s.is64=bool(s.incompat&I_64BIT)
        s.blocks=g(4,'<I') | ((g(0x150,'<I')<<32) if s.is64 else 0)
        s.inodes=g(0,'<I'); s.first_data=g(0x14,'<I'); s.bpg=g(0x20,'<I'); s.cpg=g(0x24,'<I'); s.ipg=g(0x28,'<I')
        s.log_cs=g(0x1c,'<I'); s.cratio = (1<<(s.log_cs-s.log_bs)) if s.rocompat&R_BIGALLOC else 1
        s.rev=g(0x4c,'<I'); s.first_ino=g(0x54,'<I') if s.rev>=1 else 11; s.isize=g(0x58,'<H') if s.rev>=1 else 128
        s.desc=g(0xfe,'<H') if s.is64 else 32
        if s.is64 and s.desc<32: raise Unsupported("desc size")
        s.uuid=sb[0x68:0x78]; s.rsv_gdt=g(0xce,'<H'); s.first_meta_bg=g(0x104,'<I')
        s.free_blocks=g(0xc,'<I') | ((g(0x158,'<I')<<32) if s.is64 else 0); s.free_inodes=g(0x10,'<I')
        s.state=g(0x3a,'<H'); s.journal_inum=g(0xe0,'<I'); s.last_orphan=g(0xe8,'<I')
        s.hash_seed=struct.unpack_from('<4I',sb,0xec); s.def_hash=sb[0xfc]; s.sflags=g(0x160,'<I')
        s.backup_bgs=struct.unpack_from('<2I',sb,0x24c); s.log_gpf=sb[0x174]
        s.usr_q=g(0x240,'<I'); s.grp_q=g(0x244,'<I'); s.prj_q=g(0x26c,'<I'); s.orphan_inum=g(0x280,'<I'); s.mmp_block=g(0x168,'<Q')
        s.has_mcsum=bool(s.rocompat&R_METADATA_CSUM); s.has_gdcsum=s.has_mcsum or bool(s.rocompat&R_GDT_CSUM)
        s.seed=(g(0x270,'<I') if s.incompat&I_CSUM_SEED else crc32c(0xffffffff,s.uuid))
        if s.bpg==0 or s.ipg==0: raise Unsupported("zero geometry")
        if s.log_bs>6: raise Unsupported("block size")
        fsize=os.fstat(s.f.fileno()).st_size-offset
        # implausible geometry is the superblock checker's business (e2fsck refuses such images); the reader gives no verdict
        if s.blocks*s.bs > fsize + s.bs or s.blocks<=s.first_data: raise Unsupported("blocks_count beyond the device")
        if s.bpg>8*s.bs*s.cratio or s.ipg>8*s.bs or s.cpg>8*s.bs or s.bpg%8 or s.ipg%8 or s.bpg!=s.cpg*s.cratio: raise Unsupported("group geometry")
        if s.rocompat&R_BIGALLOC and (s.log_cs<s.log_bs or s.log_cs-s.log_bs>16): raise Unsupported("cluster size")
        s.ngroups=(s.blocks - s.first_data + s.bpg-1)//s.bpg
        if s.ngroups>65536 or s.inodes!=s.ngroups*s.ipg: raise Unsupported("inode/group count mismatch")
        if s.isize<128 or s.isize>s.bs or s.isize&(s.isize-1): raise Unsupported("inode size")
        if s.first_data>1: raise Unsupported("first data block")
        if s.first_ino<11 or s.first_ino>s.inodes: raise Unsupported("first_ino")
        s.budget=4000000
        s.dpb=s.bs//s.desc; s.desc_blocks=(s.ngroups+s.dpb-1)//s.dpb
        s.itb=(s.ipg*s.isize + s.bs-1)//s.bs
        if s.incompat&(I_ENCRYPT|I_CASEFOLD|I_JOURNAL_DEV): raise Unsupported("feature")
        s._gd=None; s._icache={}
    def spend(s,n=1):
        s.budget-=n
        if s.budget<0: raise Unsupported("work budget exceeded")
    def rb(s,b,n=1):
        s.spend(8*n)
        s.f.seek(s.off+b*s.bs); d=s.f.read(n*s.bs)
        if len(d)<n*s.bs: d+=bytes(n*s.bs-len(d))
        return d
    # ---- layout ----
    def has_super(s,g):
        if g==0: return True
        if s.compat&C_SPARSE_SUPER2: return g in (s.backup_bgs[0], s.backup_bgs[1]) and g!=0
        if not (s.rocompat&R_SPARSE_SUPER): return True
        if g<=1: return True
        if g%2==0: return False
        return _pow(g,3) or _pow(g,5) or _pow(g,7)
    def gfirst(s,g): return s.first_data + g*s.bpg
    def glast(s,g): return min(s.gfirst(g)+s.bpg, s.blocks)-1
    def super_and_gdt(s,g):
        """blocks occupied in group g by sb / gdt / reserved gdt (fixed metadata)"""
        out=[]; first=s.gfirst(g); hs=s.has_super(g)
        if g==0 and s.bs==1024 and s.first_data==0: out.append(0); first=1
        if hs: out.append(first)
        old_desc = s.desc_blocks
        meta=bool(s.incompat&I_META_BG)
        if meta: old_desc=min(s.first_meta_bg, s.desc_blocks)
        mg=g//s.dpb
        if (not meta) or mg < s.first_meta_bg:
            if hs:
                n=old_desc + s.rsv_gdt
                for i in range(n):
                    b=first+1+i
                    if b<=s.glast(g): out.append(b)
        else:
            r=g % s.dpb
            if r in (0,1,s.dpb-1):
                out.append(first+(1 if hs else 0))
        return out
    def gd_block(s,g):
        """location of the primary descriptor block holding group g"""
        meta=bool(s.incompat&I_META_BG); i=g//s.dpb
        if (not meta) or i < s.first_meta_bg: return s.first_data+1+i+(1 if (s.bs==1024 and s.first_data==0) else 0)
        bg=i*s.dpb; hs=s.has_super(bg)
        return s.gfirst(bg)+(1 if hs else 0)+(1 if (i==0 and s.bs==1024 and s.first_data==0) else 0)   # 1k-block bigalloc: block 0 is padding, sb in block 1
    def gds(s):
        if s._gd is None:
            s._gd=[]
            cache={}
            for g in range(s.ngroups):
                b=s.gd_block(g)
                if b not in cache: cache[b]=s.rb(b)
                s._gd.append(GD(s,g,cache[b][(g%s.dpb)*s.desc:(g%s.dpb+1)*s.desc]))
        return s._gd
    def read_inode(s,ino):
        if ino in s._icache: return s._icache[ino]
        g=(ino-1)//s.ipg; idx=(ino-1)%s.ipg; gd=s.gds()[g]
        s.f.seek(s.off+gd.itable*s.bs+idx*s.isize); raw=s.f.read(s.isize)
        if len(raw)<s.isize: raw+=bytes(s.isize-len(raw))
        i=Inode(s,ino,raw); s._icache[ino]=i; return i
    def iseed(s,ino,gen): return crc32c(crc32c(s.seed,struct.pack('<I',ino)),struct.pack('<I',gen))

class GD:
    def __init__(s,fs,g,raw):
        s.raw=raw; u=struct.unpack_from; hi=len(raw)>=64 and fs.is64
        s.bbitmap=u('<I',raw,0)[0] | ((u('<I',raw,0x20)[0]<<32) if hi else 0)
        s.ibitmap=u('<I',raw,4)[0] | ((u('<I',raw,0x24)[0]<<32) if hi else 0)
        s.itable=u('<I',raw,8)[0] | ((u('<I',raw,0x28)[0]<<32) if hi else 0)
        s.free_blocks=u('<H',raw,0xc)[0] | ((u('<H',raw,0x2c)[0]<<16) if hi else 0)
        s.free_inodes=u('<H',raw,0xe)[0] | ((u('<H',raw,0x2e)[0]<<16) if hi else 0)
        s.used_dirs=u('<H',raw,0x10)[0] | ((u('<H',raw,0x30)[0]<<16) if hi else 0)
        s.flags=u('<H',raw,0x12)[0]
        s.itable_unused=u('<H',raw,0x1c)[0] | ((u('<H',raw,0x32)[0]<<16) if hi else 0)
        s.csum=u('<H',raw,0x1e)[0]
        s.bb_csum=u('<H',raw,0x18)[0] | ((u('<H',raw,0x38)[0]<<16) if hi else 0); s.bb_hi=hi
        s.ib_csum=u('<H',raw,0x1a)[0] | ((u('<H',raw,0x3a)[0]<<16) if hi else 0)
    def calc_csum(s,fs,g):
        raw=bytearray(s.raw)
        if fs.has_mcsum:
            raw[0x1e:0x20]=b'\0\0'
            return crc32c(crc32c(fs.seed,struct.pack('<I',g)),raw)&0xffff
        c=crc16(0xffff,fs.uuid); c=crc16(c,struct.pack('<I',g)); c=crc16(c,raw[:0x1e])
        if len(raw)>0x20 and fs.is64: c=crc16(c,raw[0x20:])
        return c

# ---------------- block mapping ----------------
def walk_extents(fs, ino, F, on_meta):
    """yield (lblk, pblk, len, uninit); reports tree blocks through on_meta(pblk)"""
    out=[]
    iseed=fs.iseed(ino.ino, ino.gen)
    def node(buf, depth_expect, is_root, lo):
        if len(buf)<12: F('extent','short node'); return
        magic,ent,mx,depth,_=struct.unpack_from('<HHHHI',buf,0)
        if magic!=0xF30A: F('extent','ino %d bad extent magic'%ino.ino); return
        cap=(len(buf)-12)//12
        if mx>cap or ent>mx: F('extent','ino %d entries %d max %d cap %d'%(ino.ino,ent,mx,cap)); return
        if depth_expect is not None and depth!=depth_expect: F('extent','ino %d depth %d expected %d'%(ino.ino,depth,depth_expect)); return
        if depth>5: F('extent','ino %d too deep'%ino.ino); return
        if not is_root and fs.has_mcsum:
            off=12+12*mx
            if off+4<=len(buf):
                if struct.unpack_from('<I',buf,off)[0]!=crc32c(iseed,buf[:off]): F('csum','ino %d extent block csum'%ino.ino)
        prev_end=lo
        for i in range(ent):
            e=buf[12+12*i:24+12*i]
            if depth==0:
                lb,ln,hi,lo_=struct.unpack('<IHHI',e); un=False
                if ln>32768: ln-=32768; un=True
                if ln==0: F('extent','ino %d zero-length extent'%ino.ino); continue
                if lb<prev_end: F('extent','ino %d extents overlap/out of order at %d'%(ino.ino,lb)); continue
                prev_end=lb+ln
                out.append((lb,(hi<<32)|lo_,ln,un))
            else:
                lb,lo_,hi,_=struct.unpack('<IIHH',e); p=(hi<<32)|lo_
                if lb<prev_end and i>0: F('extent','ino %d index out of order'%ino.ino); continue
                prev_end=lb
                if not (fs.first_data<=p<fs.blocks): F('range','ino %d extent index block %d out of range'%(ino.ino,p)); continue
                on_meta(p)
                node(fs.rb(p), depth-1, False, lb)
    node(ino.iblock, None, True, 0)
    return out

def walk_blockmap(fs, ino, F, on_meta):
    out=[]; apb=fs.bs//4
    ptrs=struct.unpack('<15I',ino.iblock)
    def ok(p,what):
        if not (fs.first_data<=p<fs.blocks): F('range','ino %d %s %d out of range'%(ino.ino,what,p)); return False
        return True
    lb=0
    for p in ptrs[:12]:
        if p and ok(p,'block'): out.append((lb,p,1,False))
        lb+=1
    def ind(p,level,lb):
        span=apb**level
        if not p: return lb+span
        if not ok(p,'indirect block'): return lb+span
        on_meta(p)
        arr=struct.unpack('<%dI'%apb,fs.rb(p)); fs.spend(apb)
        for q in arr:
            if level==1:
                if q and ok(q,'block'): out.append((lb,q,1,False))
                lb+=1
            else: lb=ind(q,level-1,lb)
        return lb
    lb=ind(ptrs[12],1,lb); lb=ind(ptrs[13],2,lb); lb=ind(ptrs[14],3,lb)
    return out

# ---------------- dir hash ----------------
M32=0xffffffff
def _legacy(name,unsigned):
    h0=0x12a3fe2d; h1=0x37abe8f9
    for ch in name:
        c=ch if unsigned else (ch-256 if ch>127 else ch)
        h=(h1+(h0^((c*7152373)&M32)))&M32
        if h&0x80000000: h=(h-0x7fffffff)&M32
        h1=h0; h0=h
    return (h0<<1)&M32
def _str2hashbuf(msg,num,unsigned):
    ln=len(msg); pad=(ln|(ln<<8))&M32; pad=(pad|(pad<<16))&M32; val=pad; buf=[]
    if ln>num*4: ln=num*4
    for i in range(ln):
        if i%4==0: val=pad
        ch=msg[i]; c=ch if unsigned else (ch-256 if ch>127 else ch)
        val=(c+(val<<8))&M32
        if i%4==3: buf.append(val); val=pad; num-=1
    num-=1
    if num>=0: buf.append(val)
    while True:
        num-=1
        if num<0: break
        buf.append(pad)
    return buf
def _tea(buf,inp):
    s=0; b0,b1=buf[0],buf[1]; a,b,c,d=inp
    for _ in range(16):
        s=(s+0x9E3779B9)&M32
        b0=(b0+((((b1<<4)+a)&M32)^((b1+s)&M32)^(((b1>>5)+b)&M32)))&M32
        b1=(b1+((((b0<<4)+c)&M32)^((b0+s)&M32)^(((b0>>5)+d)&M32)))&M32
    buf[0]=(buf[0]+b0)&M32; buf[1]=(buf[1]+b1)&M32
def _rol(x,s): return ((x<<s)|(x>>(32-s)))&M32
def _md4(buf,i):
    a,b,c,d=buf
    F=lambda x,y,z: z^(x&(y^z)); G=lambda x,y,z:((x&y)+((x^y)&z))&M32; H=lambda x,y,z:x^y^z
    def R(f,a,b,c,d,x,s): return _rol((a+f(b,c,d)+x)&M32,s)
    K2=0o13240474631; K3=0o15666365641
    for k in (0,4):
        a=R(F,a,b,c,d,i[k+0],3); d=R(F,d,a,b,c,i[k+1],7); c=R(F,c,d,a,b,i[k+2],11); b=R(F,b,c,d,a,i[k+3],19)
    a=R(G,a,b,c,d,(i[1]+K2)&M32,3); d=R(G,d,a,b,c,(i[3]+K2)&M32,5); c=R(G,c,d,a,b,(i[5]+K2)&M32,9); b=R(G,b,c,d,a,(i[7]+K2)&M32,13)
    a=R(G,a,b,c,d,(i[0]+K2)&M32,3); d=R(G,d,a,b,c,(i[2]+K2)&M32,5); c=R(G,c,d,a,b,(i[4]+K2)&M32,9); b=R(G,b,c,d,a,(i[6]+K2)&M32,13)
    a=R(H,a,b,c,d,(i[3]+K3)&M32,3); d=R(H,d,a,b,c,(i[7]+K3)&M32,9); c=R(H,c,d,a,b,(i[2]+K3)&M32,11); b=R(H,b,c,d,a,(i[6]+K3)&M32,15)
    a=R(H,a,b,c,d,(i[1]+K3)&M32,3); d=R(H,d,a,b,c,(i[5]+K3)&M32,9); c=R(H,c,d,a,b,(i[0]+K3)&M32,11); b=R(H,b,c,d,a,(i[4]+K3)&M32,15)
    buf[0]=(buf[0]+a)&M32; buf[1]=(buf[1]+b)&M32; buf[2]=(buf[2]+c)&M32; buf[3]=(buf[3]+d)&M32
def dirhash(version, name, seed, unsigned):
    buf=[0x67452301,0xefcdab89,0x98badcfe,0x10325476]
    if any(seed): buf=list(seed)
    if version==0: h=_legacy(name,unsigned)
    elif version==1:
        p=name
        while len(p)>0:
            _md4(buf,_str2hashbuf(p,8,unsigned)); p=p[32:]
        h=buf[1]
    elif version==2:
        p=name
        while len(p)>0:
            _tea(buf,_str2hashbuf(p,4,unsigned)); p=p[16:]
        h=buf[0]
    else: raise Unsupported("hash version %d"%version)
    h&=~1&M32
    if h==(0x7fffffff<<1)&M32: h=(0x7fffffff-1)<<1
    return h

# ---------------- directory parsing ----------------
def parse_dirents(fs, buf, F, ctx, start=0, end=None):
    """returns list of (off, ino, rec_len, name_len, ftype, name); reports structural problems"""
    out=[]; off=start; end=len(buf) if end is None else end
    while off<end:
        if end-off<8: F('dirent','%s: no room for dirent header at %d'%(ctx,off)); break
        ino,rl,nl,ft=struct.unpack_from('<IHBB',buf,off)
        if fs.bs>=65536:
            if rl==65535 or rl==0: rl=65536
            else: rl=(rl&65532)|((rl&3)<<16)
        if rl<8 or rl%4 or off+rl>end or (ino and rl<8+((nl+3)&~3)):
            F('dirent','%s: bad rec_len %d at %d (name_len %d)'%(ctx,rl,off,nl)); break
        out.append((off,ino,rl,nl,ft,bytes(buf[off+8:off+8+nl])))
        off+=rl
    return out

class Checker:
    def __init__(s, path, offset=0):
        s.fs=FS(path,offset); s.findings=[]
    def F(s,inv,msg): s.findings.append(Finding(inv,msg))
    def run(s):
        fs=s.fs; F=s.F
        if fs.incompat & I_RECOVER: F('journal','needs_recovery set')
        # superblock checksum
        if fs.has_mcsum and struct.unpack_from('<I',fs.sbraw,0x3fc)[0]!=crc32c(0xffffffff,fs.sbraw[:0x3fc]): F('csum','superblock csum')
        gds=fs.gds()
        fixed={}   # block -> tag
        def mark_fixed(b,tag):
            if not (0<=b<fs.blocks): F('range','%s block %d out of range'%(tag,b)); return
            if b in fixed and not tag.startswith('sb'): F('dup','fixed metadata overlap at %d: %s vs %s'%(b,fixed[b],tag))
            fixed[b]=tag
        for g in range(fs.ngroups):
            for b in fs.super_and_gdt(g): mark_fixed(b,'sb/gdt g%d'%g)
        for g,gd in enumerate(gds):
            if fs.has_gdcsum and gd.csum!=gd.calc_csum(fs,g): F('csum','group %d descriptor csum'%g)
            mark_fixed(gd.bbitmap,'bbitmap g%d'%g); mark_fixed(gd.ibitmap,'ibitmap g%d'%g)
            for i in range(fs.itb): mark_fixed(gd.itable+i,'itable g%d'%g)
            if not (fs.incompat&I_FLEX_BG):
                for what,b,n in (('bbitmap',gd.bbitmap,1),('ibitmap',gd.ibitmap,1),('itable',gd.itable,fs.itb)):
                    if not (fs.gfirst(g)<=b and b+n-1<=fs.glast(g)): F('range','group %d %s outside its group'%(g,what))
        if fs.incompat&I_MMP and fs.mmp_block: fixed.setdefault(fs.mmp_block,'mmp')
        # ---- inode bitmaps
        ibm=[]
        for g,gd in enumerate(gds):
            if fs.has_gdcsum and gd.flags&1: bm=bytearray(fs.bs)
            else:
                bm=bytearray(fs.rb(gd.ibitmap))
                if fs.has_mcsum:
                    c=crc32c(fs.seed,bm[:fs.ipg//8]);
                    if not gd.bb_hi: c&=0xffff
                    if c!=gd.ib_csum: F('csum','group %d inode bitmap csum'%g)
            ibm.append(bm)
        def ibit(ino): g=(ino-1)//fs.ipg; i=(ino-1)%fs.ipg; return (ibm[g][i>>3]>>(i&7))&1
        # ---- scan inodes
        owners={}     # block -> (ino, kind)
        used_clusters=set()
        for b in fixed: used_clusters.add(b//fs.cratio)
        inuse={}; xattr_refs=collections.Counter(); ea_inode_refs=collections.Counter()
        special=set([1,2])
        if fs.compat&C_RESIZE_INODE: special.add(7)
        if fs.compat&C_HAS_JOURNAL and fs.journal_inum: special.add(fs.journal_inum)
        for q in (fs.usr_q,fs.grp_q,fs.prj_q):
            if q and fs.rocompat&R_QUOTA: special.add(q)
        if fs.compat&C_ORPHAN_FILE and fs.orphan_inum: special.add(fs.orphan_inum)
        def own(b,ino,kind):
            if b in fixed: F('dup','ino %d %s block %d collides with %s'%(ino,kind,b,fixed[b])); return
            if b in owners: F('dup','block %d claimed by ino %d and ino %d'%(b,owners[b][0],ino)); return
            owners[b]=(ino,kind); used_clusters.add(b//fs.cratio)
        maps={}
        for ino in range(1,fs.inodes+1):
            g=(ino-1)//fs.ipg; idx=(ino-1)%fs.ipg; gd=gds[g]
            if fs.has_gdcsum and (gd.flags&1): continue
            if fs.has_gdcsum and idx>=fs.ipg-gd.itable_unused:
                continue
            I=fs.read_inode(ino)
            live = I.links>0 or (ino<fs.first_ino and ino in special and I.mode)
            if ino<fs.first_ino and ino not in special:
                if ino!=2 and not I.mode: continue
            if not live:
                continue
            inuse[ino]=I
            if not ibit(ino): F('ibitmap','ino %d in use but not marked in bitmap'%ino)
            if fs.has_mcsum:
                raw=bytearray(I.raw); lo=struct.unpack_from('<H',raw,0x7c)[0]; raw[0x7c:0x7e]=b'\0\0'; prov=lo; has_hi=fs.isize>128 and I.extra>=4
                if has_hi: prov|=struct.unpack_from('<H',raw,0x82)[0]<<16; raw[0x82:0x84]=b'\0\0'
                c=crc32c(fs.iseed(ino,I.gen),raw)
                if not has_hi: c&=0xffff
                if c!=prov: F('csum','ino %d inode csum'%ino)
            # blocks
            nblk=0
            def meta(p):
                nonlocal nblk
                own(p,ino,'tree'); nblk+=1
            ext=[]
            if ino==7:
                # resize inode: only its double-indirect block is owned; reserved gdt are fixed metadata
                d=struct.unpack('<15I',I.iblock)[13]
                if d: owners[d]=(7,'dind'); used_clusters.add(d//fs.cratio)
                continue
            has_map = I.fmt in (S_IFREG,S_IFDIR) or (I.fmt==S_IFLNK and not (I.size<60 and not(I.flags&FL_EXTENTS and I.size>=60)))
            if I.fmt==S_IFLNK:
                has_map = not (I.flags&FL_INLINE) and (I.blocks - (fs.bs//512 if I.file_acl else 0) > 0 if not I.flags&FL_HUGE_FILE else True) and I.size>=60 or (I.flags&FL_EXTENTS and I.size>=60)
                has_map = (I.size>=60) and not (I.flags&FL_INLINE)
            if I.flags&FL_INLINE: has_map=False
            if ino in special and ino not in (1,2): has_map=True
            if ino==1: has_map=True
            if has_map:
                if I.flags&FL_EXTENTS: ext=walk_extents(fs,I,F,meta)
                else: ext=walk_blockmap(fs,I,F,meta)
            clusters=set()
            for lb,pb,ln,un in ext:
                if not (fs.first_data<=pb and pb+ln<=fs.blocks): F('range','ino %d extent [%d+%d] out of range'%(ino,pb,ln)); continue
                fs.spend(ln)
                for k in range(ln):
                    b=pb+k
                    if fs.cratio>1:
                        c=b//fs.cratio
                        if c in clusters: continue
                        clusters.add(c)
                        # ownership at cluster granularity
                        cb=c*fs.cratio
                        if cb in owners and owners[cb][0]!=ino: F('dup','cluster %d claimed by ino %d and ino %d'%(c,owners[cb][0],ino))
                        owners[cb]=(ino,'data'); used_clusters.add(c)
                    else: own(b,ino,'data')
            maps[ino]=ext
            if I.file_acl:
                b=I.file_acl
                if not (fs.first_data<=b<fs.blocks): F('range','ino %d xattr block %d out of range'%(ino,b))
                else:
                    xattr_refs[b]+=1
                    if b in fixed: F('dup','ino %d xattr block collides with %s'%(ino,fixed[b]))
                    elif b in owners and owners[b][1]!='xattr': F('dup','xattr block %d also claimed by ino %d'%(b,owners[b][0]))
                    else: owners[b]=(ino,'xattr'); used_clusters.add(b//fs.cratio)
        s.inuse=inuse; s.maps=maps; s.fixed=fixed; s.owners=owners; s.special=special
        # xattr blocks
        for b,n in xattr_refs.items():
            blk=fs.rb(b)
            magic,ref,nb,h,cs=struct.unpack_from('<IIIII',blk,0)
            if magic!=0xEA020000: F('xattr','xattr block %d bad magic'%b); continue
            if ref!=n: F('xattr','xattr block %d refcount %d but %d references'%(b,ref,n))
            if fs.has_mcsum:
                t=bytearray(blk); t[0x10:0x14]=b'\0\0\0\0'
                if crc32c(crc32c(fs.seed,struct.pack('<Q',b)),t)!=cs: F('csum','xattr block %d csum'%b)
        # ---- block bitmap compare
        for g,gd in enumerate(gds):
            first=fs.gfirst(g); nb=fs.glast(g)-first+1; nclu=(nb+fs.cratio-1)//fs.cratio
            exp=bytearray(fs.bs); cnt=0
            c0=first//fs.cratio
            for c in range(nclu):
                if (c0+c) in used_clusters: exp[c>>3]|=1<<(c&7); cnt+=1
            if fs.has_gdcsum and gd.flags&2:
                # uninit: on-disk bitmap is ignored; only fixed metadata may be in use here
                for c in range(nclu):
                    if (exp[c>>3]>>(c&7))&1:
                        blk=(c0+c)*fs.cratio
                        if all((bb not in fixed) for bb in range(blk,blk+fs.cratio)): F('bbitmap','group %d BLOCK_UNINIT but block %d in use'%(g,blk)); break
            else:
                bm=fs.rb(gd.bbitmap)
                if fs.has_mcsum:
                    c=crc32c(fs.seed,bm[:fs.cpg//8])
                    if not gd.bb_hi: c&=0xffff
                    if c!=gd.bb_csum: F('csum','group %d block bitmap csum'%g)
                for c in range(nclu):
                    a=(bm[c>>3]>>(c&7))&1; e=(exp[c>>3]>>(c&7))&1
                    if a!=e: F('bbitmap','group %d cluster %d (block %d): bitmap %d computed %d'%(g,c,(c0+c)*fs.cratio,a,e)); break
            free=nclu-cnt
            if gd.free_blocks!=free: F('counts','group %d free blocks %d computed %d'%(g,gd.free_blocks,free))
        # ---- inode bitmap / counts
        dirs_per_group=collections.Counter(); used_per_group=collections.Counter()
        for ino,I in inuse.items():
            used_per_group[(ino-1)//fs.ipg]+=1
            if I.is_dir(): dirs_per_group[(ino-1)//fs.ipg]+=1
        for g,gd in enumerate(gds):
            if fs.has_gdcsum and gd.flags&1:
                marked=0
            else:
                marked=sum(bin(x).count('1') for x in ibm[g][:fs.ipg//8])
            # reserved inodes are always marked
            exp_used=used_per_group[g]
            # reserved inodes (below first_ino) count as used in whichever group holds them (they span groups when ipg < first_ino)
            exp_used += sum(1 for i in range(max(1,g*fs.ipg+1),min(fs.first_ino,(g+1)*fs.ipg+1)) if i not in inuse)
            if marked!=exp_used: F('ibitmap','group %d: %d inodes marked, %d in use'%(g,marked,exp_used))
            if gd.free_inodes!=fs.ipg-exp_used: F('counts','group %d free inodes %d computed %d'%(g,gd.free_inodes,fs.ipg-exp_used))
            if gd.used_dirs!=dirs_per_group[g]: F('counts','group %d used dirs %d computed %d'%(g,gd.used_dirs,dirs_per_group[g]))
        # ---- directories
        refs=collections.Counter(); parent={}; subdirs=collections.Counter(); s.tree={}
        for ino,I in inuse.items():
            if not I.is_dir(): continue
            ents=s.read_dir(I)
            s.tree[ino]=ents
            names=set()
            dot=dotdot=None
            for (name,child,ft) in ents:
                if name==b'.': dot=child; continue
                if name==b'..': dotdot=child; continue
                if name in names: F('dirent','dir %d duplicate name %r'%(ino,name))
                names.add(name)
                if not (1<=child<=fs.inodes): F('dirent','dir %d entry %r -> bad inode %d'%(ino,name,child)); continue
                if child not in inuse: F('dirent','dir %d entry %r -> unused inode %d'%(ino,name,child)); continue
                refs[child]+=1
                C=inuse[child]
                # file_type 0 (EXT2_FT_UNKNOWN) is legal: readers then use the inode's mode
                if fs.incompat&I_FILETYPE and (ft&7) and (ft&7)!=FT.get(C.fmt,0): F('dirent','dir %d entry %r filetype %d but inode mode %o'%(ino,name,ft,C.mode))
                if C.is_dir():
                    subdirs[ino]+=1
                    if parent.get(child) is not None: F('links','directory %d has two parents'%child)
                    parent[child]=ino
            if dot!=ino: F('dirent',"dir %d '.' is %r"%(ino,dot))
            s_dotdot=dotdot
            I._dotdot=dotdot
        for ino,I in inuse.items():
            if I.is_dir():
                p=parent.get(ino)
                if ino==2: p=2
                if p is None: F('reach','directory %d not referenced by any directory'%ino)
                elif getattr(I,'_dotdot',None)!=p: F('dirent',"dir %d '..' is %r, parent is %d"%(ino,getattr(I,'_dotdot',None),p))
                exp=2+subdirs[ino]
                if ino==2: exp=2+subdirs[ino]
                if fs.rocompat&R_DIR_NLINK and (exp>65000 or I.links==1):
                    if I.links!=1 and I.links!=exp: F('links','dir %d links %d expected %d'%(ino,I.links,exp))
                elif I.links!=exp: F('links','dir %d links %d expected %d'%(ino,I.links,exp))
            else:
                if ino<fs.first_ino or ino in special: continue
                if I.flags&FL_EA_INODE: continue
                if refs[ino]==0: F('reach','inode %d in use but unreferenced'%ino)
                elif refs[ino]!=I.links: F('links','inode %d links %d references %d'%(ino,I.links,refs[ino]))
        # reachability from root (cycle-free walk)
        seen=set([2]); st=[2]
        while st:
            d=st.pop()
            for (name,child,ft) in s.tree.get(d,[]):
                if name in (b'.',b'..'): continue
                if child in inuse and inuse[child].is_dir() and child not in seen: seen.add(child); st.append(child)
        for ino,I in inuse.items():
            if I.is_dir() and ino not in seen: F('reach','directory %d unreachable from root'%ino)
        return s.findings
    def read_dir(s, I):
        fs=s.fs; F=s.F; out=[]
        if I.flags&FL_INLINE:
            data=bytearray(I.iblock)
            # '..' is the first 4 bytes; entries follow
            par=struct.unpack_from('<I',data,0)[0]
            out.append((b'.',I.ino,2)); out.append((b'..',par,2))
            ea=s.inline_ea(I)
            for (off,ino,rl,nl,ft,name) in parse_dirents(fs,data,F,'inline dir %d'%I.ino,4,60):
                if ino: out.append((name,ino,ft))
            if ea:
                for (off,ino,rl,nl,ft,name) in parse_dirents(fs,ea,F,'inline dir %d ea'%I.ino):
                    if ino: out.append((name,ino,ft))
            return out
        ext=s.maps.get(I.ino,[])
        lmap={}
        for lb,pb,ln,un in ext:
            fs.spend(ln)
            for k in range(ln): lmap[lb+k]=pb+k
        nblocks=(I.size+fs.bs-1)//fs.bs
        fs.spend(nblocks)
        iseed=fs.iseed(I.ino,I.gen)
        dx=None
        for lb in range(nblocks):
            if lb not in lmap:
                F('dirent','dir %d has a hole at block %d'%(I.ino,lb)); continue
            buf=fs.rb(lmap[lb])
            is_dx_node=False
            if I.flags&FL_INDEX and fs.compat&C_DIR_INDEX:
                if lb==0: dx=s.parse_dx_root(I,buf,lmap,iseed) or {}
                elif dx and lb in dx.get('nodes',()): is_dx_node=True
            if is_dx_node: continue
            end=fs.bs
            if fs.has_mcsum and not (dx is not None and lb==0):
                # leaf tail
                t=buf[fs.bs-12:]
                tino,trl,tnl,tft,tcs=struct.unpack('<IHBBI',t)
                if tino==0 and trl==12 and tnl==0 and tft==0xDE:
                    end=fs.bs-12
                    if crc32c(iseed,buf[:fs.bs-12])!=tcs: F('csum','dir %d block %d leaf csum'%(I.ino,lb))
                else:
                    F('csum','dir %d block %d has no csum tail'%(I.ino,lb))
            ents=parse_dirents(fs,buf,F,'dir %d blk %d'%(I.ino,lb),0,end)
            for (off,ino,rl,nl,ft,name) in ents:
                if ino:
                    if nl==0: F('dirent','dir %d zero-length name'%I.ino)
                    out.append((name,ino,ft))
                    if dx and lb in dx.get('leaf_range',{}):
                        lo,hi=dx['leaf_range'][lb]
                        if name not in (b'.',b'..'):
                            h=dirhash(dx['hv'],name,fs.hash_seed,dx['unsigned'])
                            if not (lo<=h<=hi): F('htree','dir %d name %r hash %08x outside leaf %d range [%08x,%08x]'%(I.ino,name,h,lb,lo,hi))
        return out
    def parse_dx_root(s,I,buf,lmap,iseed):
        fs=s.fs; F=s.F
        # fake dirents
        rl1=struct.unpack_from('<H',buf,4)[0]
        if rl1!=12: F('htree','dir %d dx_root dot rec_len %d'%(I.ino,rl1)); return None
        hv=buf[0x1c]; ilen=buf[0x1d]; levels=buf[0x1e]
        if ilen!=8: F('htree','dir %d dx info_length %d'%(I.ino,ilen)); return None
        maxlev = 3 if fs.incompat&I_LARGEDIR else 2
        if levels>=maxlev: F('htree','dir %d indirect levels %d'%(I.ino,levels)); return None
        unsigned=bool(fs.sflags&2)
        if hv>2: F('htree','dir %d hash version %d'%(I.ino,hv)); return None
        res={'hv':hv,'unsigned':unsigned,'nodes':set(),'leaf_range':{}}
        def node(buf,off,level,lo,hi,lb,root):
            limit,count=struct.unpack_from('<HH',buf,off)
            cap=(fs.bs-off)//8 - (1 if fs.has_mcsum else 0)
            if limit!=cap: F('htree','dir %d node blk %d limit %d expected %d'%(I.ino,lb,limit,cap))
            if count>limit or count==0: F('htree','dir %d node blk %d count %d limit %d'%(I.ino,lb,count,limit)); return
            if fs.has_mcsum:
                toff=off+limit*8
                if toff+8<=fs.bs:
                    cs=struct.unpack_from('<I',buf,toff+4)[0]
                    c=crc32c(iseed,buf[:off+count*8]); c=crc32c(c,buf[toff:toff+4]); c=crc32c(c,b'\0\0\0\0')
                    if c!=cs: F('csum','dir %d dx node blk %d csum'%(I.ino,lb))
            ents=[]
            for i in range(count):
                h,b=struct.unpack_from('<II',buf,off+8*i)
                if i==0: h=lo
                ents.append((h,b&0x0fffffff))
            for i,(h,b) in enumerate(ents):
                nh = ents[i+1][0] if i+1<len(ents) else hi+1
                if i>0 and h<ents[i-1][0]: F('htree','dir %d node blk %d hashes out of order'%(I.ino,lb))
                if i>0 and h<lo: F('htree','dir %d node blk %d hash below parent bound'%(I.ino,lb))
                if b not in lmap or b==0: F('htree','dir %d node blk %d points to bad block %d'%(I.ino,lb,b)); continue
                # continuation: if next hash has low bit set, this leaf's range extends to include next hash's major value
                top = (nh-1) if not (nh&1) else (nh|1)
                if i+1>=len(ents): top=hi
                if level>0:
                    if b in res['nodes']: F('htree','dir %d block %d referenced twice'%(I.ino,b)); continue
                    res['nodes'].add(b)
                    nb=s.fs.rb(lmap[b])
                    node(nb,8,level-1,h&~1,top,b,False)
                else:
                    if b in res['leaf_range'] or b in res['nodes']: F('htree','dir %d block %d referenced twice'%(I.ino,b)); continue
                    res['leaf_range'][b]=(h&~1,top)
        node(buf,0x20,levels,0,0xffffffff,0,True)
        return res
    def inline_ea(s,I):
        fs=s.fs
        if fs.isize<=128: return None
        base=128+I.extra
        raw=I.raw
        if base+4>len(raw) or struct.unpack_from('<I',raw,base)[0]!=0xEA020000: return None
        off=base+4; first=off
        while off+16<=len(raw):
            nl,idx,voff,vino,vsz,h=struct.unpack_from('<BBHIII',raw,off)
            if nl==0 and idx==0 and voff==0 and vino==0: break
            name=bytes(raw[off+16:off+16+nl])
            if idx==7 and name==b'data':
                return bytes(raw[first+voff:first+voff+vsz])
            off+=(16+nl+3)&~3
        return None

if __name__=='__main__':
    try:
        c=Checker(sys.argv[1]); f=c.run()
    except Unsupported as e:
        print("UNSUPPORTED",e); sys.exit(2)
    for x in f[:40]: print(x)
    print("findings:",len(f)); sys.exit(1 if f else 0)

# =====================================================================================================
# Reader: tolerant access to file data, directories, symlinks and extended attributes; tree digest.
# =====================================================================================================
XPFX = {1: b'user.', 2: b'system.posix_acl_access', 3: b'system.posix_acl_default', 4: b'trusted.', 6: b'security.', 7: b'system.', 8: b'system.richacl'}

def xattr_entries(buf, start, base, limit):
    """parse entries starting at `start`; value offsets are relative to `base`. yields dict per entry"""
    off = start; out = []
    while off + 4 <= limit:
        if buf[off:off + 4] == b'\0\0\0\0': break          # IS_LAST_ENTRY: the list ends with one zero 32-bit word (value data may follow immediately)
        if off + 16 > limit: break
        nl, idx, voff, vino, vsz, h = struct.unpack_from('<BBHIII', buf, off)
        name = bytes(buf[off + 16:off + 16 + nl])
        out.append(dict(off=off, name_len=nl, index=idx, voff=voff, vino=vino, vsize=vsz, hash=h, name=name, base=base))
        off += (16 + nl + 3) & ~3
    return out

def xattr_name_hash(name, signed=False):
    h = 0
    for ch in name:
        c = ch - 256 if (signed and ch > 127) else ch
        h = ((h << 5) & M32) ^ (h >> 27) ^ (c & M32)
    return h & M32

def xattr_entry_hash(name, value, vino_hash=None, signed=False):
    h = xattr_name_hash(name, signed)
    if vino_hash is not None:
        h = ((h << 16) & M32) ^ (h >> 16) ^ vino_hash
    elif value:
        v = bytes(value) + bytes((-len(value)) % 4)
        for (w,) in struct.iter_unpack('<I', v):
            h = ((h << 16) & M32) ^ (h >> 16) ^ w
    return h & M32

SPARSE_SHA_OVER = 1 << 30     # files larger than this are digested block-sparsely (sparse_sha) instead of being read into memory

class Reader:
    def __init__(s, path, offset=0):
        s.fs = FS(path, offset); s.errors = []
    def F(s, inv, msg): s.errors.append(Finding(inv, msg))
    def inode(s, ino): return s.fs.read_inode(ino)
    def blockmap(s, I):
        if I.flags & FL_INLINE: return []
        if I.fmt == S_IFLNK and I.size < 60 and not (I.flags & FL_EXTENTS and s._has_blocks(I)): return []
        if I.fmt not in (S_IFREG, S_IFDIR, S_IFLNK): return []
        if I.flags & FL_EXTENTS: return walk_extents(s.fs, I, s.F, lambda p: None)
        return walk_blockmap(s.fs, I, s.F, lambda p: None)
    def _has_blocks(s, I):
        return (I.blocks - ((s.fs.bs * s.fs.cratio) // 512 if I.file_acl else 0)) > 0
    def inline_data(s, I):
        ea = Checker.inline_ea(s, I) if s.fs.isize > 128 else None
        d = bytes(I.iblock) + (ea or b'')
        return d
    def read_data(s, I, maxlen=None):
        """bytes of the file (holes and unwritten extents read as zeros), length min(i_size, maxlen)"""
        size = I.size if maxlen is None else min(I.size, maxlen)
        if I.flags & FL_INLINE:
            d = s.inline_data(I)[:size]; return d + bytes(size - len(d))
        if I.fmt == S_IFLNK and I.size < 60 and not (I.flags & FL_EXTENTS):
            if not s._has_blocks(I): return bytes(I.iblock[:size])
        bs = s.fs.bs; out = bytearray(size)
        for lb, pb, ln, un in s.blockmap(I):
            if un: continue
            o = lb * bs
            if o >= size: continue
            n = min(ln * bs, size - o)
            s.fs.f.seek(s.fs.off + pb * bs); d = s.fs.f.read(n)
            out[o:o + len(d)] = d
        return bytes(out)
    def sparse_sha(s, I):
        """digest for very large sparse files: sha256 over (logical block number, block bytes) of every block below i_size that is not all zeros (the last block cut at i_size and zero-padded)"""
        bs = s.fs.bs; h = hashlib.sha256(); size = I.size; z = bytes(bs)
        for lb, pb, ln, un in sorted(s.blockmap(I)):
            if un: continue
            for k in range(ln):
                o = (lb + k) * bs
                if o >= size: break
                s.fs.f.seek(s.fs.off + (pb + k) * bs); d = s.fs.f.read(bs)
                if o + bs > size: d = d[:size - o] + bytes(bs - (size - o))
                if d != z: h.update(struct.pack('<Q', lb + k)); h.update(d)
        return 'sparse:' + h.hexdigest()
    def mapped_blocks(s, I):
        """set of logical blocks that are mapped (initialised or not)"""
        m = set()
        for lb, pb, ln, un in s.blockmap(I): m.update(range(lb, lb + ln))
        return m
    def xattrs(s, I, raw=False):
        """dict fullname(bytes) -> value(bytes); with raw=True returns list of entry dicts incl. placement"""
        fs = s.fs; res = {}; ents = []
        if fs.isize > 128 and I.extra >= 4 or fs.isize > 128:
            base = 128 + I.extra
            if base + 4 <= len(I.raw) and struct.unpack_from('<I', I.raw, base)[0] == 0xEA020000:
                for e in xattr_entries(I.raw, base + 4, base + 4, len(I.raw)):
                    e['where'] = 'ibody'; e['buf'] = I.raw; ents.append(e)
        if I.file_acl and fs.first_data <= I.file_acl < fs.blocks:
            blk = fs.rb(I.file_acl)
            if struct.unpack_from('<I', blk, 0)[0] == 0xEA020000:
                for e in xattr_entries(blk, 32, 0, fs.bs):
                    e['where'] = 'block'; e['buf'] = blk; ents.append(e)
        for e in ents:
            if e['vino']:
                try:
                    V = fs.read_inode(e['vino']); val = s.read_data(V, e['vsize']); e['where'] += '+ea_inode'
                except Exception:
                    val = b''
            else:
                o = e['base'] + e['voff']; val = bytes(e['buf'][o:o + e['vsize']])
            e['value'] = val
            pfx = XPFX.get(e['index'], b'?%d?' % e['index'])
            e['fullname'] = pfx + e['name']
            res[e['fullname']] = val
        return ents if raw else res
    def listdir(s, I):
        ck = Checker.__new__(Checker); ck.fs = s.fs; ck.findings = s.errors; ck.maps = {I.ino: s.blockmap(I)}
        return ck.read_dir(I)
    def readlink(s, I):
        return s.read_data(I)
    def digest(s, root=2, with_xattr=True, skip_lost_found=False, content=True):
        """path(bytes) -> record dict. Hard links appear under every path with the same 'ino' group id."""
        fs = s.fs; out = {}; st = [(b'', root)]; seen_dirs = set([root]); n = 0
        while st:
            path, dino = st.pop()
            D = fs.read_inode(dino)
            for name, ino, ft in s.listdir(D):
                if name in (b'.', b'..') or ino == 0: continue
                if skip_lost_found and dino == root and name == b'lost+found': continue
                p = path + b'/' + name
                if not (1 <= ino <= fs.inodes): out[p] = dict(bad_inode=ino); continue
                I = fs.read_inode(ino)
                rec = dict(type=I.fmt, mode=I.mode & 0o7777, uid=I.uid, gid=I.gid, nlink=I.links, ino=ino, mtime=I.mtime)
                if I.fmt == S_IFREG:
                    rec['size'] = I.size
                    if content and I.size > SPARSE_SHA_OVER and not (I.flags & FL_INLINE): rec['sha'] = s.sparse_sha(I)
                    elif content:
                        d = s.read_data(I); rec['sha'] = hashlib.sha256(d).hexdigest()
                elif I.fmt == S_IFLNK:
                    rec['size'] = I.size; rec['target'] = s.readlink(I)
                elif I.fmt in (0o020000, 0o060000):
                    b0, b1 = struct.unpack_from('<II', I.iblock, 0)
                    rec['rdev'] = b0 if b0 else b1
                    rec['rdev_new'] = bool(b1 and not b0)
                if with_xattr:
                    xa = s.xattrs(I); xa.pop(b'system.data', None)
                    if xa: rec['xattr'] = {k: hashlib.sha256(v).hexdigest()[:16] + ':%d' % len(v) for k, v in xa.items()}
                out[p] = rec
                if I.fmt == S_IFDIR and ino not in seen_dirs:
                    seen_dirs.add(ino); st.append((p, ino))
                n += 1
                if n > 200000: raise Unsupported('tree too large')
        return out

def digest_file(path, **kw):
    r = Reader(path); return r.digest(**kw)

# ---------------- xattr block well-formedness (order, hashes) used by C15/C02 ----------------
def check_xattr_block(fs, blkno, F):
    blk = fs.rb(blkno)
    magic, ref, nb, bh, cs = struct.unpack_from('<IIIII', blk, 0)
    if magic != 0xEA020000: F('xattr', 'xattr block %d bad magic' % blkno); return
    ents = xattr_entries(blk, 32, 0, fs.bs)
    prev = None; h = 0
    signed = bool(fs.sflags & 1) and not (fs.sflags & 2)
    for e in ents:
        key = (e['index'], e['name_len'], e['name'])
        if prev is not None and key < prev: F('xattr', 'xattr block %d entries not sorted (%r after %r)' % (blkno, key, prev))
        prev = key
        if e['vino'] == 0:
            if e['voff'] + e['vsize'] > fs.bs: F('xattr', 'xattr block %d value out of block' % blkno); continue
            val = blk[e['voff']:e['voff'] + e['vsize']]
            eh = xattr_entry_hash(e['name'], val); eh2 = xattr_entry_hash(e['name'], val, signed=True)
            if e['hash'] not in (eh, eh2): F('xattr', 'xattr block %d entry %r hash %08x expected %08x' % (blkno, e['name'], e['hash'], eh))
    h = 0
    for e in ents:
        if not e['hash']: h = 0; break
        h = ((h << 16) & M32) ^ (h >> 16) ^ e['hash']
    if ents and bh not in (0, h): F('xattr', 'xattr block %d block hash %08x expected %08x (or 0 = not shareable)' % (blkno, bh, h))     # the kernel treats h_hash 0 as 'do not share'; libext2fs writes 0


def metadata_blocks(ck):
    """after Checker.run(): (set of all metadata blocks, set of blocks owned by files or primary metadata).
    Metadata = superblock/descriptor copies, bitmaps, inode tables, MMP, extent-tree/indirect blocks, xattr blocks, directory blocks, symlink blocks and the data of the
    journal / quota / orphan-file / resize inodes (what e2image -r must carry)."""
    fs=ck.fs; meta=set(); owned=set(); gds=fs.gds()
    for b,tag in ck.fixed.items():
        if tag.startswith('sb/gdt g') and tag!='sb/gdt g0': continue     # backups are not "primary metadata" (an image may or may not carry them)
        m=re.match(r'(bbitmap|ibitmap|itable) g(\d+)$',tag)
        if m and fs.has_gdcsum:
            gd=gds[int(m.group(2))]
            # uninitialised bitmaps / inode tables and the never-used tail of an inode table carry no information (and may hold stale bytes): not required in an image
            if m.group(1)=='bbitmap' and gd.flags&2: continue
            if m.group(1) in ('ibitmap','itable') and gd.flags&1: continue
            if m.group(1)=='itable':
                used_blocks=((fs.ipg-gd.itable_unused)*fs.isize+fs.bs-1)//fs.bs
                if b-gd.itable>=used_blocks: continue
        meta.add(b); owned.add(b)
    for b,(ino,kind) in ck.owners.items():
        if kind!='data': meta.add(b)
        if fs.cratio>1 and kind=='data': owned.update(range(b,b+fs.cratio))
        else: owned.add(b)
    for ino,ext in ck.maps.items():
        I=ck.inuse[ino]
        if I.fmt==S_IFDIR or I.fmt==S_IFLNK or (ino in ck.special and ino not in (1,2)):
            for lb,pb,ln,un in ext:
                if fs.first_data<=pb and pb+ln<=fs.blocks: meta.update(range(pb,pb+ln))
    return meta, owned
