"""Build variants of /repo's *working tree* out of tree, cached by content fingerprint.

ensure(variant) -> path of the build directory (contains e2fsck/e2fsck, misc/mke2fs, lib/*.a ...).
Nothing under /repo is touched. Cache lives in /var/tmp/e2verif-build (pure cache).
"""
import os, sys, subprocess, hashlib, shutil, fcntl, time

REPO = os.environ.get('VERIF_REPO', '/repo')
CACHE = os.environ.get('VERIF_BUILD_CACHE', '/var/tmp/e2verif-build' if os.path.realpath(REPO) == '/repo' else '/var/tmp/e2verif-build-alt-' + os.path.basename(os.path.realpath(REPO)))   # a scratch tree (sensitivity runs) does not evict /repo's builds
GUARD = 'E2FSPROGS_VERIF'

COMMON_CONF = ['--disable-nls', '--disable-uuidd', '--disable-fuse2fs', '--disable-e2initrd-helper',
               '--disable-defrag', '--disable-debugfs=no', '--enable-elf-shlibs=no']
COMMON_CONF = ['--disable-nls', '--disable-uuidd', '--disable-fuse2fs', '--disable-e2initrd-helper', '--disable-defrag']

VARIANTS = {
    # what users run; only variant usable under LD_PRELOAD interposers
    'plain': dict(env={'CC': 'gcc', 'CFLAGS': '-g -O2 -D%s' % GUARD}, conf=[]),
    # sanitised tools and libraries
    'asan': dict(env={'CC': 'clang', 'CFLAGS': '-g -O1 -fno-omit-frame-pointer -D%s' % GUARD},
                 conf=['--enable-addrsan', '--enable-ubsan']),
    'tsan': dict(env={'CC': 'clang', 'CFLAGS': '-g -O1 -fno-omit-frame-pointer -D%s' % GUARD},
                 conf=['--enable-threadsan'], targets=['libs']),
    # library objects instrumented for libFuzzer (no main)
    'fuzz': dict(env={'CC': 'clang', 'CFLAGS': '-g -O1 -fno-omit-frame-pointer -fsanitize=fuzzer-no-link,address -D%s' % GUARD,
                      'LDFLAGS': '-fsanitize=address'}, conf=[], targets=['libs']),
}

def _files():
    out = subprocess.run(['git', '-C', REPO, 'ls-files', '-z', '--cached', '--others', '--exclude-standard'],
                         stdout=subprocess.PIPE, check=True).stdout
    fl = sorted(set(x for x in out.decode('utf-8', 'surrogateescape').split('\0') if x))
    return fl

def fingerprint():
    h = hashlib.sha256()
    for f in _files():
        p = os.path.join(REPO, f)
        try:
            st = os.lstat(p)
        except OSError:
            continue
        fb = f.encode('utf-8', 'surrogateescape')
        if os.path.islink(p):
            h.update(b'L' + fb + b'\0' + os.readlink(p).encode() + b'\0')
        elif os.path.isfile(p):
            h.update(b'F' + fb + b'\0%o\0' % (st.st_mode & 0o111))
            with open(p, 'rb') as fh:
                h.update(hashlib.sha256(fh.read()).digest())
    return h.hexdigest()[:20]

def _log(msg):
    sys.stderr.write('[build] %s\n' % msg); sys.stderr.flush()

def ensure(variant, fp=None):
    v = VARIANTS[variant]
    os.makedirs(CACHE, exist_ok=True)
    fp = fp or fingerprint()
    d = os.path.join(CACHE, '%s-%s' % (variant, fp))
    if os.path.exists(os.path.join(d, '.ok')):
        return os.path.join(d, 'b')
    lock = open(os.path.join(CACHE, variant + '.lock'), 'w')
    fcntl.flock(lock, fcntl.LOCK_EX)
    try:
        if os.path.exists(os.path.join(d, '.ok')):
            return os.path.join(d, 'b')
        # drop every other cached build of this variant (disk is limited)
        for n in os.listdir(CACHE):
            if n.startswith(variant + '-') and n != os.path.basename(d):
                shutil.rmtree(os.path.join(CACHE, n), ignore_errors=True)
        shutil.rmtree(d, ignore_errors=True)
        src = os.path.join(d, 'src'); b = os.path.join(d, 'b')
        os.makedirs(src); os.makedirs(b)
        t0 = time.time()
        fl = [f for f in _files() if os.path.lexists(os.path.join(REPO, f))]
        p = subprocess.run(['rsync', '-a', '--from0', '--files-from=-', REPO + '/', src + '/'],
                           input='\0'.join(fl).encode('utf-8', 'surrogateescape'))
        if p.returncode: raise RuntimeError('rsync failed')
        env = dict(os.environ); env.update(v['env'])
        with open(os.path.join(d, 'build.log'), 'wb') as lg:
            r = subprocess.run([os.path.join(src, 'configure')] + COMMON_CONF + v['conf'], cwd=b, env=env, stdout=lg, stderr=subprocess.STDOUT)
            if r.returncode: raise RuntimeError('configure failed for %s, see %s/build.log' % (variant, d))
            tg = v.get('targets', [])
            r = subprocess.run(['make', '-j16'] + tg, cwd=b, env=env, stdout=lg, stderr=subprocess.STDOUT)
            if r.returncode: raise RuntimeError('make failed for %s, see %s/build.log' % (variant, d))
        open(os.path.join(d, '.ok'), 'w').write('%.1f\n' % (time.time() - t0))
        _log('%s built in %.0fs -> %s' % (variant, time.time() - t0, d))
        return b
    finally:
        fcntl.flock(lock, fcntl.LOCK_UN); lock.close()

def ensure_many(variants):
    """build several variants concurrently (each is make -j16; overlap hides configure)"""
    import concurrent.futures as cf
    fp = fingerprint()
    with cf.ThreadPoolExecutor(len(variants)) as ex:
        futs = {v: ex.submit(ensure, v, fp) for v in variants}
        return {v: f.result() for v, f in futs.items()}

def srcdir(bdir):
    return os.path.join(os.path.dirname(bdir), 'src')

if __name__ == '__main__':
    for v in sys.argv[1:] or ['plain']:
        print(v, ensure(v))
