"""Check context: counters, non-trivial case accounting, known-finding matching, evidence, verdict lines."""
import os, sys, json, time, hashlib, re

VERIF = os.path.dirname(os.path.dirname(os.path.abspath(__file__)))
KNOWN_FILE = os.environ.get('VERIF_KNOWN_FILE') or os.path.join(VERIF, 'known_findings.json')      # the override is for developer triage only (never set by registered commands)

def stable_hash(obj):
    return hashlib.sha256(json.dumps(obj, sort_keys=True, default=str).encode()).hexdigest()[:16]

def load_known(prop):
    try:
        with open(KNOWN_FILE) as f:
            data = json.load(f)
    except FileNotFoundError:
        return []
    return [e for e in data.get('findings', []) if e.get('property') == prop]

def _match_spec(spec, val):
    if isinstance(spec, dict) and len(spec) > 1:
        return all(_match_spec({k: v}, val) for k, v in spec.items())      # several conditions on one key: all of them
    if isinstance(spec, dict):
        if 'in' in spec: return val in spec['in']
        if 'subset_of' in spec: return val is not None and set(val) <= set(spec['subset_of'])
        if 'superset_of' in spec: return val is not None and set(val) >= set(spec['superset_of'])
        if 'intersects' in spec: return val is not None and bool(set(val) & set(spec['intersects']))
        if 'all_re' in spec:
            return bool(val) and all(re.search(spec['all_re'], str(x)) for x in val)
        if 'equals_set' in spec:
            return val is not None and set(val) == set(spec['equals_set'])
        if 'glob' in spec:
            import fnmatch
            return val is not None and fnmatch.fnmatchcase(str(val), spec['glob'])
        if 're' in spec: return val is not None and re.search(spec['re'], str(val)) is not None
        if 'nonempty_subset_of' in spec: return bool(val) and set(val) <= set(spec['nonempty_subset_of'])
        return False
    return spec == val

def match_known(known, obs):
    """obs: dict describing the failing observation. Returns the first matching 'known' entry or None."""
    for e in known:
        if e.get('status') != 'known': continue
        sig = e.get('signature') or {}
        if sig and all(_match_spec(spec, obs.get(k)) for k, spec in sig.items()):
            return e
    return None

def _code_ok(spec, code):
    """does a second_codes spec of a known finding allow this single code?"""
    if spec is None: return True
    if isinstance(spec, dict):
        if 'all_re' in spec: return re.search(spec['all_re'], code) is not None
        for k in ('equals_set', 'nonempty_subset_of', 'subset_of'):
            if k in spec: return code in spec[k]
        if 'intersects' in spec: return True
    return False

def match_known_combination(known, obs, key='second_codes'):
    """a case with SEVERAL independent damages may show the symptoms of several known findings at once. It is known if every observed code is allowed by some known finding whose other
    conditions (damaged area, configuration) hold for this case, and every such finding that demands specific codes ('intersects') gets one. Returns the list of entries or None."""
    codes = obs.get(key) or []
    if not codes or len(obs.get('applied') or []) < 2: return None
    cands = []
    for e in known:
        if e.get('status') != 'known': continue
        sig = e.get('signature') or {}
        if sig and all(_match_spec(spec, obs.get(k)) for k, spec in sig.items() if k != key): cands.append(e)
    used = []
    for c in codes:
        hit = [e for e in cands if _code_ok((e.get('signature') or {}).get(key), c)]
        if not hit: return None
        for e in hit:
            if e not in used: used.append(e)
    for e in used:
        spec = (e.get('signature') or {}).get(key)
        if isinstance(spec, dict) and 'intersects' in spec and not set(codes) & set(spec['intersects']): used = [x for x in used if x is not e]
    for c in codes:
        if not any(_code_ok((e.get('signature') or {}).get(key), c) for e in used): return None
    return used or None

class Result:
    """Mergeable per-worker result."""
    def __init__(self):
        self.evaluations = 0
        self.nontrivial = set()      # fingerprints of distinct non-trivial cases
        self.classes = {}            # histogram
        self.samples = []
        self.violations = []         # list of dict(obs=..., case=...)
        self.known_hits = {}         # finding id -> count
        self.inconclusive = 0
        self.flaky = 0
        self.notes = []
    def count(self, k, n=1):
        self.classes[k] = self.classes.get(k, 0) + n
    def case(self, fingerprint, nontrivial, sample=None, max_samples=4):
        self.evaluations += 1
        if nontrivial:
            self.nontrivial.add(fingerprint if isinstance(fingerprint, str) else stable_hash(fingerprint))
            if sample is not None and len(self.samples) < max_samples:
                self.samples.append(sample)
    def to_json(self):
        return dict(evaluations=self.evaluations, nontrivial=sorted(self.nontrivial), classes=self.classes,
                    samples=self.samples, violations=self.violations, known_hits=self.known_hits,
                    inconclusive=self.inconclusive, flaky=self.flaky, notes=self.notes)
    @staticmethod
    def from_json(d):
        r = Result(); r.evaluations = d['evaluations']; r.nontrivial = set(d['nontrivial']); r.classes = d['classes']
        r.samples = d['samples']; r.violations = d['violations']; r.known_hits = d['known_hits']
        r.inconclusive = d['inconclusive']; r.flaky = d['flaky']; r.notes = d.get('notes', [])
        return r
    def merge(self, o):
        self.evaluations += o.evaluations; self.nontrivial |= o.nontrivial
        for k, v in o.classes.items(): self.classes[k] = self.classes.get(k, 0) + v
        self.samples += o.samples; self.violations += o.violations
        for k, v in o.known_hits.items(): self.known_hits[k] = self.known_hits.get(k, 0) + v
        self.inconclusive += o.inconclusive; self.flaky += o.flaky; self.notes += o.notes

class Ctx:
    def __init__(self, prop, tier, seed, level='exploration'):
        self.prop = prop; self.tier = tier; self.seed = seed; self.level = level
        self.t0 = time.time(); self.res = Result(); self.known = load_known(prop)
        self.rule = ''; self.assumptions = []; self.extra = {}
        self.outdir = os.path.join(os.environ.get('VERIF_OUT_DIR') or os.path.join(VERIF, 'out'), prop); os.makedirs(self.outdir, exist_ok=True)   # (developer runs against scratch trees redirect out/ and evidence/)
    # ------------------------------------------------------------------
    def classify(self, obs):
        """returns known entry or None"""
        e = match_known(self.known, obs)
        if e is None and self.prop == 'C01':
            combo = match_known_combination(self.known, obs)
            if combo: obs['known_combination'] = [x['id'] for x in combo]; return combo[0]
        return e
    def save_violation(self, obs, case):
        h = stable_hash([obs, case])
        p = os.path.join(self.outdir, h + '.json')
        with open(p, 'w') as f:
            json.dump(dict(property=self.prop, obs=obs, case=case), f, indent=1, default=str)
        return p
    def finish(self, max_samples=6):
        r = self.res
        rc = 0
        lines = []
        # violations not matching a known finding
        seen = set()
        for v in r.violations:
            e = self.classify(v['obs'])
            if e is not None:
                r.known_hits[e['id']] = r.known_hits.get(e['id'], 0) + 1
                continue
            p = self.save_violation(v['obs'], v['case'])
            if p in seen: continue
            seen.add(p)
            lines.append('VIOLATION property=%s replay=%s' % (self.prop, p)); rc = 1
        for e in self.known:  # exclusions counted inside a harness are keyed by their tag/glob
            t = (e.get('signature') or {}).get('tag')
            t = t.get('glob') if isinstance(t, dict) else t
            if t and ('tag:' + t) in r.known_hits:
                r.known_hits[e['id']] = r.known_hits.get(e['id'], 0) + r.known_hits.pop('tag:' + t)
        for e in self.known:
            if e.get('status') == 'known' and r.known_hits.get(e['id'], 0) > 0:
                lines.append('KNOWN-FINDING: property=%s %s [%s; matched %d case(s) this run]' % (self.prop, e['what'], e['id'], r.known_hits[e['id']]))
        cov = dict(evaluations=r.evaluations, distinct_nontrivial=len(r.nontrivial), rule=self.rule,
                   samples=r.samples[:max_samples], classes=dict(sorted(r.classes.items())),
                   known_finding_matches=r.known_hits, inconclusive=r.inconclusive, flaky=r.flaky)
        cov.update(self.extra)
        if r.notes: cov['notes'] = r.notes[:20]
        ev = dict(property_id=self.prop, tier=self.tier, seed=int(self.seed), level=self.level, coverage=cov,
                  assumptions=self.assumptions, wall_s=round(time.time() - self.t0, 2), violations=len(seen))
        evdir = os.environ.get('VERIF_EVIDENCE_DIR') or os.path.join(VERIF, 'evidence')
        os.makedirs(evdir, exist_ok=True)
        tmp = os.path.join(evdir, '.%s.tmp' % self.prop)
        with open(tmp, 'w') as f:
            json.dump(ev, f, indent=1, default=str)
        os.replace(tmp, os.path.join(evdir, '%s.json' % self.prop))
        if r.evaluations == 0 or len(r.nontrivial) < 2:
            if not lines or rc == 0:
                sys.stderr.write('[%s] warning: %d evaluations, %d non-trivial\n' % (self.prop, r.evaluations, len(r.nontrivial)))
        for l in lines: print(l)
        print('[%s] tier=%s seed=%s evaluations=%d distinct_nontrivial=%d inconclusive=%d known=%s violations=%d wall=%.1fs' % (
            self.prop, self.tier, self.seed, r.evaluations, len(r.nontrivial), r.inconclusive, r.known_hits, len(seen), time.time() - self.t0))
        sys.stdout.flush()
        return rc

# ----------------------------------------------------------------------
def run_workers(fn, nworkers, args_list):
    """run fn(*args) in separate processes; fn returns Result; returns merged Result.
    A worker that dies is reported as a note (never silently dropped)."""
    import multiprocessing as mp
    ctx = mp.get_context('fork')
    q = ctx.Queue()
    def wrap(i, a):
        try:
            r = fn(*a)
            q.put((i, r.to_json(), None))
        except BaseException as e:  # noqa
            import traceback
            q.put((i, None, traceback.format_exc()))
    procs = []
    for i, a in enumerate(args_list):
        p = ctx.Process(target=wrap, args=(i, a)); p.start(); procs.append(p)
    merged = Result(); got = 0; errors = []
    while got < len(procs):
        try:
            i, rj, err = q.get(timeout=5)
        except Exception:
            if not any(p.is_alive() for p in procs) and q.empty():
                break
            continue
        got += 1
        if err: errors.append('worker %d: %s' % (i, err))
        else: merged.merge(Result.from_json(rj))
    for p in procs: p.join()
    if got < len(procs): errors.append('%d worker(s) died without result' % (len(procs) - got))
    if errors:
        raise RuntimeError('worker failure:\n' + '\n'.join(errors))
    return merged
