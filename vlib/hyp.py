"""Generic plumbing for the Hypothesis-driven tool-level checks.

run_property(ctx, strategy, body, n_per_worker, nworkers) runs `nworkers` processes; each runs Hypothesis with a seed derived from
ctx.seed and the worker index.  body(case, env) -> (obs_or_None, fingerprint, nontrivial, sample, classes)
   obs None  = property held on this case;  obs dict = failing observation (checked against known findings inside the body,
   so that known findings are excluded by construction and the search continues behind them).
The minimal failing example is re-executed `confirm` times from its serialised form before it counts.
"""
import os, sys, json, re, random, shutil
from hypothesis import given, settings, seed as hseed, HealthCheck, Phase, strategies as st
from . import core, run as vrun, build, fsgen, e4ref

class Fail(Exception):
    pass

COLLECT = bool(os.environ.get('VERIF_COLLECT'))

def _settings(n):
    return settings(max_examples=n, database=None, deadline=None, suppress_health_check=list(HealthCheck), report_multiple_bugs=False,
                    phases=[Phase.generate, Phase.shrink], print_blob=False, derandomize=False)

def _worker(widx, ctx_prop, ctx_seed, known, strategy_fn, body_fn, envinit_fn, n, confirm):
    res = core.Result()
    env = envinit_fn(widx) if envinit_fn else {}
    state = {'fail': None}
    strategy = strategy_fn(env)
    def classify(obs):
        return core.match_known(known, obs)
    def one(case, record=True):
        out = body_fn(case, env)
        obs, fp, nontrivial, sample, classes = out
        if record:
            for k in classes or (): res.count(k)
        if obs is not None:
            e = classify(obs)
            if e is not None:
                if record: res.known_hits[e['id']] = res.known_hits.get(e['id'], 0) + 1; res.count('excluded:known:' + e['id'])
                if record: res.case(fp, nontrivial, None)
                return None
            if record and COLLECT:
                # triage mode (never used by registered commands): record every unlisted failure unshrunk and keep searching
                if len(res.violations) < 400: res.violations.append(dict(obs=obs, case=case))
                res.case(fp, nontrivial, None)
                return None
            return obs
        if record: res.case(fp, nontrivial, sample)
        return None
    @hseed((ctx_seed * 1000003 + widx * 7919 + 11) & 0xffffffff)
    @_settings(n)
    @given(strategy)
    def test(case):
        obs = one(case)
        if obs is not None:
            state['fail'] = (obs, case)
            raise Fail(json.dumps(obs, default=str)[:300])
    try:
        test()
    except Fail:
        pass
    except BaseException as e:
        # a multiple-failure / flaky report from Hypothesis still leaves the last recorded failing example
        if state['fail'] is None: raise
    if state['fail'] is not None:
        obs, case = state['fail']
        ok = 0
        for _ in range(confirm):
            o2 = one(case, record=False)
            if o2 is not None: ok += 1; obs = o2
        if ok == confirm:
            res.violations.append(dict(obs=obs, case=case))
        else:
            res.flaky += 1; res.notes.append('non-reproducible failure (%d/%d): %s' % (ok, confirm, json.dumps(obs, default=str)[:300]))
    if envinit_fn and env.get('_cleanup'): env['_cleanup']()
    return res

def run_property(ctx, strategy_fn, body_fn, envinit_fn, n_per_worker, nworkers=16, confirm=3):
    args = [(w, ctx.prop, ctx.seed, ctx.known, strategy_fn, body_fn, envinit_fn, n_per_worker, confirm) for w in range(nworkers)]
    res = core.run_workers(_worker, nworkers, args)
    ctx.res.merge(res)
    return res

def replay_case(ctx, case, body_fn, envinit_fn):
    env = envinit_fn(0) if envinit_fn else {}
    out = body_fn(case, env)
    return out[0]

# ---------------------------------------------------------------------------------------------------
# Shared environment for image based checks: tools + per-worker cache of populated template images
# ---------------------------------------------------------------------------------------------------
class ImgEnv(dict):
    pass

def img_env(widx, variants=('asan',), configs=None, recipes=None):
    env = ImgEnv()
    d = os.path.join(vrun.scratch(), 'w%d' % widx); os.makedirs(d, exist_ok=True)
    env['dir'] = d; env['blobs'] = os.path.join(d, 'blobs'); os.makedirs(env['blobs'], exist_ok=True)
    env['plain'] = vrun.Tools(build.ensure('plain'))
    for v in variants: env[v] = vrun.Tools(build.ensure(v))
    env['tools'] = env[variants[0]] if variants else env['plain']
    env['cache'] = {}
    env['configs'] = configs or fsgen.CONFIGS
    env['_cleanup'] = lambda: shutil.rmtree(d, ignore_errors=True)
    return env

def template(env, cfg_name, recipe_key=0, recipes=None):
    """path of a populated, consistent image for (config, recipe); built once per worker. None if it cannot be built."""
    key = (cfg_name, recipe_key)
    if key in env['cache']: return env['cache'][key]
    cfg = fsgen.config_by_name(cfg_name)
    img = os.path.join(env['dir'], 'tpl-%s-%d.img' % (cfg_name, recipe_key))
    recipes = recipes or RECIPES
    recipe = recipes[recipe_key % len(recipes)]
    ok, log = fsgen.build_image(env['plain'], img, cfg, recipe, env['blobs'], random.Random(recipe_key * 31 + 7))
    if not ok:
        env['cache'][key] = None; env.setdefault('build_failures', []).append((cfg_name, recipe_key, log[:300]))
        return None
    env['cache'][key] = img
    return img

RECIPES = [dict(), dict(dirents=300, longnames=True, frag=120), dict(dirents=20, frag=8, big=300000), dict(dirents=600, frag=30)]

def fresh_copy(env, tpl, name='work.img'):
    dst = os.path.join(env['dir'], name)
    shutil.copyfile(tpl, dst)
    return dst

PROBLEM_RE = re.compile(r'<problem code="(0x[0-9a-f]+)"(?: answer="(-?\d+)")?')
def fsck_logged(tools, img, opts, env, cpu=60):
    """run e2fsck with the XML problem log enabled; returns (Proc, [(code, answer), ...])"""
    conf = os.path.join(env['dir'], 'e2fsck.conf'); log = os.path.join(env['dir'], 'plog.xml')
    if os.path.exists(log): os.unlink(log)
    with open(conf, 'w') as f: f.write('[options]\nproblem_log_filename = %s\n' % log)
    p = vrun.run([tools.e2fsck] + opts.split() + [img], env={'E2FSCK_CONFIG': conf}, merge=True, cpu=cpu)
    probs = []
    try:
        for m in PROBLEM_RE.finditer(open(log).read()): probs.append((m.group(1), int(m.group(2) or 0)))
    except FileNotFoundError:
        pass
    return p, probs

mutation = st.tuples(st.integers(0, 18), st.integers(0, 500), st.integers(0, 200), st.integers(0, 11), st.integers(0, 1 << 20), st.booleans())
