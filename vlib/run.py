"""Hermetic, resource-limited tool runs and scratch management."""
import re, os, sys, subprocess, resource, shutil, tempfile, atexit, struct, signal

VERIF = os.path.dirname(os.path.dirname(os.path.abspath(__file__)))
FAKE_TIME = 1700000000

BASE_ENV = {
    'PATH': '/usr/sbin:/usr/bin:/sbin:/bin', 'TZ': 'UTC', 'LC_ALL': 'C', 'HOME': '/nonexistent',
    'MKE2FS_CONFIG': os.path.join(VERIF, 'etc', 'mke2fs.conf'),
    'E2FSPROGS_FAKE_TIME': str(FAKE_TIME), 'E2FSCK_TIME': str(FAKE_TIME),
    'E2FSPROGS_UNDO_DIR': 'none', 'MKE2FS_SYNC': '0',
    'E2FSCK_CONFIG': '/dev/null', 'DEBUGFS_PAGER': '__none__', 'PAGER': 'cat',
    'ASAN_OPTIONS': 'exitcode=99:allocator_may_return_null=1:detect_leaks=0:abort_on_error=0:handle_abort=1',
    'UBSAN_OPTIONS': 'print_stacktrace=1:halt_on_error=0',
    'E2FSPROGS_SKIP_PROGRESS': '1',
}

_scratch = None
def scratch():
    global _scratch
    if _scratch is None or not os.path.isdir(_scratch) or _scratch_pid != os.getpid():
        _mk()
    return _scratch
def _mk():
    global _scratch, _scratch_pid
    base = '/dev/shm' if os.path.isdir('/dev/shm') else '/var/tmp'
    _scratch = tempfile.mkdtemp(prefix='e2verif.%d.' % os.getpid(), dir=base)
    _scratch_pid = os.getpid()
    d = _scratch; pid = os.getpid()
    def cleanup():
        if os.getpid() == pid: shutil.rmtree(d, ignore_errors=True)
    atexit.register(cleanup)
_scratch_pid = None

_SIGCATCHER = re.compile(r'^Signal \((\d+)\) SIG[A-Z0-9]+ ', re.M)

class Proc:
    __slots__ = ('rc', 'out', 'err', 'sig', 'cpu_limit_hit', 'truncated')
    def __repr__(self): return 'Proc(rc=%r sig=%r out=%r err=%r)' % (self.rc, self.sig, self.out[-300:], self.err[-300:])

def run(cmd, env=None, cpu=20, stdin=None, cwd=None, max_out=1 << 20, as_mb=4096, merge=False):
    """Run cmd with CPU-seconds limit (load independent) and capped output. Never raises on failure."""
    e = dict(BASE_ENV)
    if env: e.update(env)
    def pre():
        resource.setrlimit(resource.RLIMIT_CPU, (cpu, cpu + 2))
        resource.setrlimit(resource.RLIMIT_CORE, (0, 0))
        resource.setrlimit(resource.RLIMIT_FSIZE, (1 << 33, 1 << 33))      # 8 GiB: images are sparse; one C19 configuration is a 5 GiB filesystem
        os.setsid()
    sin = subprocess.DEVNULL
    if stdin is not None:
        # through an unlinked temp file: a pipe would deadlock once the script exceeds the pipe buffer while the tool's output is not yet drained
        sin = tempfile.TemporaryFile(dir=scratch()); sin.write(stdin if isinstance(stdin, bytes) else stdin.encode('utf-8', 'surrogateescape')); sin.seek(0)
    p = subprocess.Popen(cmd, env=e, cwd=cwd, stdin=sin,
                         stdout=subprocess.PIPE, stderr=subprocess.STDOUT if merge else subprocess.PIPE, preexec_fn=pre)
    if stdin is not None: sin.close()
    r = Proc(); r.truncated = False
    # drain with cap
    import selectors
    sel = selectors.DefaultSelector()
    bufs = {p.stdout: bytearray()}
    sel.register(p.stdout, selectors.EVENT_READ)
    if not merge:
        bufs[p.stderr] = bytearray(); sel.register(p.stderr, selectors.EVENT_READ)
    total = 0; nopen = len(bufs)
    while nopen:
        for key, _ in sel.select():
            d = os.read(key.fileobj.fileno(), 65536)
            if not d:
                sel.unregister(key.fileobj); nopen -= 1; continue
            total += len(d)
            if len(bufs[key.fileobj]) < max_out: bufs[key.fileobj] += d
            if total > 64 * max_out and not r.truncated:
                # runaway output: treat like a CPU-limit hit candidate; kill
                r.truncated = True
                try: os.killpg(p.pid, signal.SIGKILL)
                except Exception: pass
    p.wait()
    r.out = bytes(bufs[p.stdout]).decode('latin-1')
    r.err = '' if merge else bytes(bufs[p.stderr]).decode('latin-1')
    r.rc = p.returncode if p.returncode >= 0 else None
    r.sig = -p.returncode if p.returncode < 0 else None
    if r.rc == 8:
        # e2fsck installs its own handler for the fatal signals (e2fsck/sigcatcher.c): it prints 'Signal (N) SIG...' with a backtrace and exits 8. That is a crash,
        # not an operational error - report it as death by that signal.
        m = _SIGCATCHER.search(r.out) or _SIGCATCHER.search(r.err)
        if m and int(m.group(1)) in (signal.SIGSEGV, signal.SIGBUS, signal.SIGFPE, signal.SIGILL, signal.SIGABRT): r.sig = int(m.group(1)); r.rc = None
        elif m and int(m.group(1)) == signal.SIGXCPU: r.sig = signal.SIGXCPU; r.rc = None       # our own CPU limit, caught by the tool
        elif m and int(m.group(1)) == signal.SIGXFSZ: r.sig = signal.SIGXFSZ; r.rc = None       # our own file size limit (a write at a huge offset of the sparse image): inconclusive for the caller
    r.cpu_limit_hit = r.sig in (signal.SIGXCPU, signal.SIGKILL) and not r.truncated
    return r

class Tools:
    def __init__(self, bdir):
        self.b = bdir
        self.e2fsck = os.path.join(bdir, 'e2fsck', 'e2fsck'); self.mke2fs = os.path.join(bdir, 'misc', 'mke2fs')
        self.tune2fs = os.path.join(bdir, 'misc', 'tune2fs'); self.debugfs = os.path.join(bdir, 'debugfs', 'debugfs')
        self.resize2fs = os.path.join(bdir, 'resize', 'resize2fs'); self.e2image = os.path.join(bdir, 'misc', 'e2image')
        self.e2undo = os.path.join(bdir, 'misc', 'e2undo'); self.dumpe2fs = os.path.join(bdir, 'misc', 'dumpe2fs')
        self.e2freefrag = os.path.join(bdir, 'misc', 'e2freefrag')
    def fsck(self, img, opts='-fn', **kw):
        return run([self.e2fsck] + opts.split() + [img], merge=True, **kw)
    def dbg(self, img, script, write=False, **kw):
        """run a debugfs script (list of command lines)"""
        s = script if isinstance(script, str) else '\n'.join(script) + '\n'
        return run([self.debugfs] + (['-w'] if write else []) + ['-f', '-', img], stdin=s, merge=True, **kw)

def sha256_file(p):
    import hashlib
    h = hashlib.sha256()
    with open(p, 'rb') as f:
        while True:
            b = f.read(1 << 20)
            if not b: break
            h.update(b)
    return h.hexdigest()

# ---- iotrace helpers ----
IOTRACE = os.path.join(VERIF, 'native', 'iotrace.so')
def traced_env(log, match, kill_at=None, fail_from=None, fail_count=0, match2=None):
    e = {'LD_PRELOAD': IOTRACE, 'IOT_LOG': log, 'IOT_MATCH': match}
    if match2: e['IOT_MATCH2'] = match2
    if kill_at is not None: e['IOT_KILL_AT'] = str(kill_at)
    if fail_from is not None: e['IOT_FAIL_FROM'] = str(fail_from); e['IOT_FAIL_COUNT'] = str(fail_count)
    return e
def parse_trace(log):
    """-> list of (op, off, data_or_len)"""
    out = []
    try:
        b = open(log, 'rb').read()
    except FileNotFoundError:
        return out
    i = 0
    while i + 17 <= len(b):
        op = chr(b[i]); off, n = struct.unpack_from('<qQ', b, i + 1); i += 17
        if op in ('W', 'f', 'X'):   # records that carry data
            out.append((op, off, b[i:i + n])); i += n
        else:
            out.append((op, off, n))
    return out
