/* LD_PRELOAD interposer: records the ordered device-level operations a tool issues on files whose path
 * contains $IOT_MATCH, with the written bytes, into $IOT_LOG (binary records: op[1] off[8] len[8] data[len]).
 *   ops: 'O' open (off=flags)  'W' write that succeeded (data = bytes actually written)  'w' write attempt refused by the kernel  'S' fsync/fdatasync  'T' ftruncate(off=len)  'F' fallocate(off, len; data=mode as 4 bytes)  'C' close
 * A second file can be traced with $IOT_MATCH2: its successful writes are recorded as 'X' (with data), its fsyncs as 'Y' (other operations keep their letter).
 * Fault injection (deterministic):
 *   IOT_KILL_AT=N  : _exit(137) immediately before the N-th (0-based) 'W' operation is performed
 *   IOT_FAIL_FROM=N, IOT_FAIL_COUNT=M : 'W' operations N..N+M-1 fail with EIO (both pwrite and write paths)
 * Works with the plain gcc build only (clang's static ASan runtime shadows interposers). */
#define _GNU_SOURCE
#include <dlfcn.h>
#include <errno.h>
#include <fcntl.h>
#include <stdarg.h>
#include <stdint.h>
#include <stdio.h>
#include <stdlib.h>
#include <string.h>
#include <unistd.h>
#include <sys/types.h>

static ssize_t (*r_pwrite64)(int, const void *, size_t, off64_t);
static ssize_t (*r_write)(int, const void *, size_t);
static int (*r_fsync)(int), (*r_fdatasync)(int), (*r_ftruncate64)(int, off64_t), (*r_close)(int);
static int (*r_fallocate64)(int, int, off64_t, off64_t);
static int (*r_open64)(const char *, int, ...);
static int lgfd = -1; static const char *match, *match2; static long kill_at = -1, fail_from = -1, fail_count = 0, wcount;
static int inited;

static void init(void)
{
	const char *p;
	if (inited) return;
	inited = 1;
	r_pwrite64 = dlsym(RTLD_NEXT, "pwrite64"); r_write = dlsym(RTLD_NEXT, "write");
	r_fsync = dlsym(RTLD_NEXT, "fsync"); r_fdatasync = dlsym(RTLD_NEXT, "fdatasync");
	r_ftruncate64 = dlsym(RTLD_NEXT, "ftruncate64"); r_close = dlsym(RTLD_NEXT, "close");
	r_fallocate64 = dlsym(RTLD_NEXT, "fallocate64"); r_open64 = dlsym(RTLD_NEXT, "open64");
	match = getenv("IOT_MATCH"); match2 = getenv("IOT_MATCH2");
	p = getenv("IOT_LOG");
	if (p) lgfd = r_open64(p, O_WRONLY | O_CREAT | O_APPEND | O_CLOEXEC, 0644);
	if ((p = getenv("IOT_KILL_AT"))) kill_at = atol(p);
	if ((p = getenv("IOT_FAIL_FROM"))) fail_from = atol(p);
	if ((p = getenv("IOT_FAIL_COUNT"))) fail_count = atol(p);
}
static int hit(int fd)
{
	char l[64], path[1024];
	ssize_t n;
	if (!match || fd < 0 || fd == lgfd) return 0;
	snprintf(l, sizeof l, "/proc/self/fd/%d", fd);
	n = readlink(l, path, sizeof path - 1);
	if (n < 0) return 0;
	path[n] = 0;
	if (match2 && strstr(path, match2)) return 2;
	return strstr(path, match) != NULL;
}
static void rec(char op, int64_t off, const void *b, uint64_t n)
{
	char hdr[17];
	if (lgfd < 0) return;
	hdr[0] = op; memcpy(hdr + 1, &off, 8); memcpy(hdr + 9, &n, 8);
	r_write(lgfd, hdr, 17);
	if (b && n) r_write(lgfd, b, n);
}
/* returns 1 if the write must fail */
static int wgate(void)
{
	long k = wcount++;
	if (kill_at >= 0 && k == kill_at) _exit(137);
	if (fail_from >= 0 && k >= fail_from && k < fail_from + fail_count) return 1;
	return 0;
}
ssize_t pwrite64(int fd, const void *b, size_t n, off64_t o)
{
	init();
	int h = hit(fd);
	if (h) {
		ssize_t r; int e;
		if (wgate()) { rec('E', o, 0, n); errno = EIO; return -1; }
		r = r_pwrite64(fd, b, n, o); e = errno;
		if (r > 0) rec(h == 2 ? 'X' : 'W', o, b, r); else rec('w', o, 0, n);	/* 'w': attempted write that the kernel refused (e.g. read-only descriptor) */
		errno = e; return r;
	}
	return r_pwrite64(fd, b, n, o);
}
ssize_t pwrite(int fd, const void *b, size_t n, off_t o) { return pwrite64(fd, b, n, o); }
ssize_t write(int fd, const void *b, size_t n)
{
	init();
	int h = fd > 2 ? hit(fd) : 0;
	if (h) {
		off64_t o = lseek64(fd, 0, SEEK_CUR);
		ssize_t r; int e;
		if (wgate()) { rec('E', o, 0, n); errno = EIO; return -1; }
		r = r_write(fd, b, n); e = errno;
		if (r > 0) rec(h == 2 ? 'X' : 'W', o, b, r); else rec('w', o, 0, n);
		errno = e; return r;
	}
	return r_write(fd, b, n);
}
int fsync(int fd) { int h; init(); h = hit(fd); if (h) rec(h == 2 ? 'Y' : 'S', 0, 0, 0); return r_fsync(fd); }
int fdatasync(int fd) { int h; init(); h = hit(fd); if (h) rec(h == 2 ? 'Y' : 'S', 0, 0, 0); return r_fdatasync(fd); }
int ftruncate64(int fd, off64_t len) { int r, e, h; init(); h = hit(fd); r = r_ftruncate64(fd, len); e = errno; if (h) rec(r == 0 ? 'T' : 't', len, 0, 0); errno = e; return r; }
int ftruncate(int fd, off_t len) { return ftruncate64(fd, len); }
int fallocate64(int fd, int mode, off64_t off, off64_t len)
{
	init();
	if (hit(fd)) {
		int32_t m = mode; char buf[4]; int r, e;
		r = r_fallocate64(fd, mode, off, len); e = errno;
		if (r == 0) { memcpy(buf, &m, 4); rec('F', off, 0, 0); rec('f', len, buf, 4); } else rec('t', off, 0, 0);
		errno = e; return r;
	}
	return r_fallocate64(fd, mode, off, len);
}
int fallocate(int fd, int mode, off_t off, off_t len) { return fallocate64(fd, mode, off, len); }
int close(int fd) { init(); if (hit(fd)) rec('C', 0, 0, 0); return r_close(fd); }
int open64(const char *path, int flags, ...)
{
	mode_t mode = 0; int fd;
	init();
	if (flags & (O_CREAT | O_TMPFILE)) { va_list ap; va_start(ap, flags); mode = va_arg(ap, mode_t); va_end(ap); }
	fd = r_open64(path, flags, mode);
	if (fd >= 0 && match && strstr(path, match)) rec('O', flags, 0, 0);
	return fd;
}
int open(const char *path, int flags, ...)
{
	mode_t mode = 0;
	if (flags & (O_CREAT | O_TMPFILE)) { va_list ap; va_start(ap, flags); mode = va_arg(ap, mode_t); va_end(ap); }
	return open64(path, flags, mode);
}
