/* Independent CRCs for the reference reader: tables are derived at load time from the polynomial only
 * (bitwise definition); no libext2fs code or tables are used. */
#include <stdint.h>
#include <stddef.h>
static uint32_t t32c[256], t32be[256]; static uint16_t t16[256]; static int init;
static void mk(void)
{
	for (int i = 0; i < 256; i++) {
		uint32_t c = i; for (int k = 0; k < 8; k++) c = (c >> 1) ^ (0x82F63B78u & -(c & 1)); t32c[i] = c;
		uint16_t d = i; for (int k = 0; k < 8; k++) d = (d >> 1) ^ (0xA001 & -(d & 1)); t16[i] = d;
		uint32_t b = (uint32_t)i << 24; for (int k = 0; k < 8; k++) b = (b << 1) ^ ((b & 0x80000000u) ? 0x04C11DB7u : 0); t32be[i] = b;
	}
	init = 1;
}
uint32_t ref_crc32c(uint32_t crc, const uint8_t *p, size_t n) { if (!init) mk(); while (n--) crc = t32c[(crc ^ *p++) & 0xff] ^ (crc >> 8); return crc; }
uint16_t ref_crc16(uint16_t crc, const uint8_t *p, size_t n) { if (!init) mk(); while (n--) crc = t16[(crc ^ *p++) & 0xff] ^ (crc >> 8); return crc; }
/* MSB-first CRC32 (poly 0x04C11DB7), no reflection, no final xor: jbd2 v1 commit checksums */
uint32_t ref_crc32_be(uint32_t crc, const uint8_t *p, size_t n) { if (!init) mk(); while (n--) crc = t32be[((crc >> 24) ^ *p++) & 0xff] ^ (crc << 8); return crc; }
