/* C14(c) library probe: drives the libext2fs read path of one metadata object and prints the error code it returns.
 * usage: c14_probe <image> open | bitmaps | inode N | extents N | dir N | xattr N
 * output: "RET <errcode> <message>"  (0 = accepted) */
#include <stdio.h>
#include <stdlib.h>
#include <string.h>
#include "ext2fs/ext2_fs.h"
#include "ext2fs/ext2fs.h"
#include "et/com_err.h"

static int dir_cb(struct ext2_dir_entry *d, int off, int bs, char *buf, void *p) { (void)d; (void)off; (void)bs; (void)buf; (void)p; return 0; }

int main(int argc, char **argv)
{
	ext2_filsys fs; errcode_t r; const char *op;
	if (argc < 3) return 2;
	op = argv[2];
	add_error_table(&et_ext2_error_table);
	r = ext2fs_open2(argv[1], 0, EXT2_FLAG_64BITS, 0, 0, unix_io_manager, &fs);
	if (r || !strcmp(op, "open")) goto out;
	if (!strcmp(op, "bitmaps")) { r = ext2fs_read_bitmaps(fs); goto out; }
	if (argc < 4) return 2;
	{
		ext2_ino_t ino = strtoul(argv[3], 0, 0);
		if (!strcmp(op, "inode")) {
			struct ext2_inode_large *in = malloc(EXT2_INODE_SIZE(fs->super));
			r = ext2fs_read_inode_full(fs, ino, (struct ext2_inode *)in, EXT2_INODE_SIZE(fs->super));
		} else if (!strcmp(op, "extents")) {
			ext2_extent_handle_t h; struct ext2fs_extent e;
			r = ext2fs_extent_open(fs, ino, &h);
			if (!r) {
				r = ext2fs_extent_get(h, EXT2_EXTENT_ROOT, &e);
				while (!r) r = ext2fs_extent_get(h, EXT2_EXTENT_NEXT, &e);
				if (r == EXT2_ET_EXTENT_NO_NEXT) r = 0;
				ext2fs_extent_free(h);
			}
		} else if (!strcmp(op, "dir")) {
			r = ext2fs_dir_iterate2(fs, ino, DIRENT_FLAG_INCLUDE_EMPTY, 0, dir_cb, 0);
			if (!r && argc > 4) {     /* htree interior nodes are not read by the linear iterator: read the given logical block as a dx node through the htree-aware reader */
				blk64_t pblk; char *buf = malloc(fs->blocksize);
				r = ext2fs_bmap2(fs, ino, 0, 0, 0, strtoul(argv[4], 0, 0), 0, &pblk);
				if (!r) r = ext2fs_read_dir_block4(fs, pblk, buf, 0, ino);
			}
		} else if (!strcmp(op, "xattr")) {
			struct ext2_xattr_handle *h;
			r = ext2fs_xattrs_open(fs, ino, &h);
			if (!r) { r = ext2fs_xattrs_read(h); ext2fs_xattrs_close(&h); }
		} else return 2;
	}
out:
	printf("RET %ld %s\n", (long)r, r ? error_message(r) : "ok");
	return 0;
}
